"""C16 (panic half): every panic-capable site (explicit panic!/unreachable!/assert!, unwrap/expect,
indexing, arithmetic overflow asserts) reachable in the call graph from the peer-driven entry points
(four dispatchers, handshake services, connectors, server, io dispatcher, control services, routers,
sink/shared API) is enumerated from MIR and must be auto-proven, discharged by a named structural
rule, or listed in the reviewed table below (API precondition / assumed invariant, one line of reason
each). Plus: no RefCell guard is alive across an await; the PayloadChunk arms of all four
dispatchers agree. 'Never hangs' (liveness) is not decided. refcell (continued): while a RefCell guard is alive, no call reaches (through resolved callees and closures handed to the call) a conflicting borrow of the same cell, and no application callback (boxed dyn Fn) is invoked.
"""
from facts import *
from disp import *
import panics

ROOT_PATS = [
    r'as ntex_service::Service<v[35]::codec::Decoded>>::(call|ready|poll|shutdown)',
    r'HandshakeService<.*as ntex_service::Service<.*>>::call',
    r'connector::MqttConnectorService::<A, T>::connect_inner',
    r'^<server::MqttServerImpl<.* as ntex_service::Service',
    r'^<io::Dispatcher<.*as std::future::Future>::poll',
    r'^<(control|v[35]::default)::.*as ntex_service::Service<.*>>::(call|ready|poll|shutdown)',
    r'router::RouterService<.* as ntex_service::Service<.*>>::(call|ready|poll)',
    r'^v[35]::(sink|shared)::',
    r'^<v[35]::sink::.* as std::ops::Drop>::drop',
    r'^v[35]::client::connection::',
    r'^v[35]::(control|client::control|publish|handshake)::',
    r'^<service::',
    r'^<inflight::',
    r'^inflight::',
    r'^payload::',
]

# (function regex, kind, what regex, class, reason, max count)
TABLE = [
    # --- discharged by structural rules of other properties (checked here by calling them)
    (r'^v[35]::shared::Ack::(publish|receive|subscribe|unsubscribe)$', 'panic-call', r'^panic!$', 'DISCHARGED:C06',
     'conversion is reached only with the matching Ack variant: pkt_ack_inner completes a sender only on the is_match edge (C06.type-before-complete) and every sink API registers the AckType its conversion expects (C06.conversion-pairing)', 1),
    (r'HandshakeService<.*>::call::\{closure#0\}$|connect_inner::\{closure#0\}$', 'panic-call', r'^unreachable!$', 'DISCHARGED:payload-chunk-origin',
     'Decoded::PayloadChunk is produced only in the PublishPayload decoder state, which is entered only from the publish arms; the handshake reads one item from a fresh codec and returns on Decoded::Publish', 1),
    (r'^<io::Dispatcher<.*as std::future::Future>::poll$', 'unwrap', r'^unwrap\(take\(\)\)$', 'DISCHARGED:stop-some',
     'IoDispatcherState::Stop always holds Some(fut) when the Stop arm is entered: every construction of Stop wraps Some(..) and the arm puts the future back before leaving on Pending (C07 typestate)', 1),
    (r'^v[35]::shared::MqttShared::next_id$', 'unwrap', r'^unwrap\(', 'DISCHARGED:next-id',
     'argument is get()+1 or u16::MAX, never 0, and the cell stays <= 65534 at exit (C06.id-discipline next_id invariant)', 1),
    (r'^v[35]::shared::MqttShared::next_id$', 'assert', r'^Overflow:Add$', 'DISCHARGED:next-id', 'inflight_idx <= 65534 at every exit of next_id (C06.id-discipline), so +1 cannot overflow u16', 1),
    (r'router::RouterService<.*>::call::\{closure#0\}$', 'index', r'^index\(arg1\.0\.handlers\)$', 'DISCHARGED:router-index',
     'indices stored in the router (and in its alias cache) are handlers.len() at registration time; create() builds one service per registered handler', 2),
    (r'^v[35]::client::connection::dispatch::\{closure#0\}::\{closure#\d+\}$', 'index', r'^index\(arg1\.1\)$', 'ASSUMED',
     'client router: index registered by Client::resource as handlers.len() before push (same construction as the server router)', 1),
    # --- guarded arithmetic proven by the local guard prover (kept here so an unguarded variant is reported)
    # --- API preconditions: documented application misuse, not triggerable by the peer
    (r'^v[35]::sink::(PublishBuilder|SubscribeBuilder|UnsubscribeBuilder)::packet_id$', 'unwrap|panic-call', r'.*', 'API-PRECONDITION', 'documented: "Panics if id is 0" (application-chosen id)', 1),
    (r'^v[35]::sink::PublishBuilder::send_at_least_once_no_block$', 'panic-call', r'^assert!$', 'API-PRECONDITION', 'documented: panics if the sink is not ready (application contract of the non-blocking API)', 1),
    (r'^v3::shared::MqttShared::wait_publish_response_no_block$', 'panic-call', r'^assert!$', 'API-PRECONDITION', 'documented: panics if the publish-ack callback is not set', 1),
    (r'^v[35]::shared::MqttShared::pkt_ack_inner$', 'unwrap', r'^unwrap\(take\(\)\)$', 'API-PRECONDITION',
     'on_publish_ack is set whenever an entry without a channel exists: entries with tx == None are queued only by wait_publish_response_no_block whose contract requires the callback (asserted in v3, documented in v5)', 1),
    (r'^v5::handshake::HandshakeAck::<St>::keep_alive$', 'panic-call', r'^assert!$', 'API-PRECONDITION', 'documented: panics if timeout is 0 (application value)', 1),
    (r'^v5::sink::MqttSink::(subscribe|unsubscribe)$', 'unwrap', r'.*', 'PROVEN', 'NonZeroU16::new(1).unwrap() on a literal', 1),
    (r'^v5::sink::PublishReceived::(properties|reason)$', 'unwrap', r'^unwrap\(arg1\.result\)$', 'ASSUMED', 'result is Some from construction until release(self)/drop consume the value (builder methods take self by value)', 1),
    (r'^v[35]::sink::PublishReceived::release::\{closure#0\}$', 'unwrap', r'^unwrap\((take\(\)|\?)\)$', 'ASSUMED', 'release(self) consumes the receipt: the Option is Some from construction and taken exactly here or in Drop', 1),
    (r'^v3::(client::)?dispatcher::Inner::<C>::control::\{closure#0\}$', 'panic-call', r'^unreachable!$', 'API-PRECONDITION',
     'the answer kind comes from the application control service; each control message only offers ack() constructors of its own kind (a mismatching kind needs an ack smuggled from another connection role)', 1),
    (r'^v[35]::control::(SubscribeIter|UnsubscribeIter)::<\'a>::next_unsafe$', 'index|assert', r'.*', 'ASSUMED',
     'entry < topics.len() is tested before the three index operations; codes/status has topics.len() elements by construction; entry+1 <= len', 4),
    (r'^v[35]::sink::PublishBuilder::size$', 'assert', r'^Overflow:Add$', 'API-PRECONDITION', 'application supplied payload_size added to an encoded size < 2^28 (usize arithmetic, cannot overflow on 64-bit targets)', 1),
    (r'^io::DispatcherState::<P, U>::handle_result$', 'index', r'^index\(arg1\.queue\)$', 'ASSUMED',
     'response-queue index invariant (idx - base < queue.len()) of C04: a runtime-integer fact outside the reach of this analysis, listed as assumed', 1),
    (r'^inflight::CounterInner::(inc|dec)$', 'assert', r'^Overflow:(Add|Sub)$', 'ASSUMED',
     'counter pairing: dec(size) is only called by the guard drop with the size given to inc (C12.counter L3); cur_cap/cur_size cannot exceed the number/size of live requests', 2),
    (r'^v[35]::shared::MqttShared::(enable_streaming|encode_publish_payload)$', 'assert', r'^Overflow:Sub$', 'ASSUMED',
     'enable_streaming: payload_size >= len is an API precondition of the publish builders (payload_size is set from payload.len() or the declared stream size); encode_publish_payload subtracts only after `len > remaining -> Err`', 1),
]


def const_unwrap(body, site):
    """Option::unwrap on NonZero::new(const != 0)."""
    t = site['term']
    if not t['args']:
        return False
    ap = apath(body, t['args'][0])
    if not ap or not ap[0].startswith('call:'):
        return False
    p = op_place(t['args'][0])
    for (bi, si, kind, x) in body.whole_defs(p['l']):
        if kind == 'call' and re.search(r'NonZero::<T>::new$', callee_name(x) or ''):
            v = const_val(x['args'][0])
            if v is not None and v != 0:
                return True
    return False


def cmp_facts_at(body, bi):
    """Comparison facts holding at block bi: list of (op, lhs_key, rhs_key_or_const) for dominating
    branch edges on `bin` comparison results."""
    out = []
    for d in body.dom.get(bi, ()):
        t = body.blocks[d]['term']
        if t['k'] != 'switch':
            continue
        p = op_place(t['discr'])
        if not p or place_proj(p):
            continue
        for (xb, xs, kind, x) in body.whole_defs(p['l']):
            if kind != 'assign' or x['rv']['k'] != 'bin' or x['rv']['op'] not in ('Lt', 'Le', 'Gt', 'Ge', 'Eq', 'Ne'):
                continue
            r = bool_branch(body, d, p['l'])
            if not r:
                continue
            sb, tt, ft = r
            a, b_ = x['rv']['a'], x['rv']['b']
            if edge_dominates(body, sb, tt, bi):
                out.append((x['rv']['op'], val_key(body, a), val_key(body, b_)))
            elif edge_dominates(body, sb, ft, bi):
                neg = {'Lt': 'Ge', 'Le': 'Gt', 'Gt': 'Le', 'Ge': 'Lt', 'Eq': 'Ne', 'Ne': 'Eq'}[x['rv']['op']]
                out.append((neg, val_key(body, a), val_key(body, b_)))
    return out


def val_key(body, op):
    v = const_val(op)
    if v is not None:
        return ('const', v)
    p = op_place(op)
    if p is None:
        return ('?',)
    ap = apath(body, p)
    if ap:
        return ('ap',) + tuple(ap)
    # fall back to resolving single-def copies
    l = p['l']
    for _ in range(6):
        ds = body.whole_defs(l)
        if len(ds) == 1 and ds[0][2] == 'assign' and ds[0][3]['rv']['k'] == 'use' and op_place(ds[0][3]['rv']['op']) and not place_proj(op_place(ds[0][3]['rv']['op'])):
            l = op_place(ds[0][3]['rv']['op'])['l']
        else:
            break
    return ('local', l)


def guarded_arith(body, site):
    """Overflow:Sub(a, b) under a dominating guard b < a / a > b / a >= b / a != 0 (b const 1) ..."""
    t = site['term']
    if t.get('msg') != 'Overflow':
        return False
    op = t['op']
    if op in ('Shl', 'Shr'):
        v = const_val(t['b'])
        return v is not None and 0 <= v < 8
    if op != 'Sub':
        return False
    a, b_ = val_key(body, t['a']), val_key(body, t['b'])
    for (cop, x, y) in cmp_facts_at(body, site['block']):
        if x == b_ and y == a and cop in ('Lt', 'Le'):
            return True
        if x == a and y == b_ and cop in ('Gt', 'Ge'):
            return True
        if b_[0] == 'const' and x == a and y[0] == 'const':
            if cop == 'Gt' and y[1] >= b_[1] - 1:
                return True
            if cop == 'Ge' and y[1] >= b_[1]:
                return True
            if cop == 'Ne' and y[1] == 0 and b_[1] == 1:
                return True
    return False


def excluded_body(b):
    if b.kind in ('Const', 'AssocConst', 'InlineConst', 'AnonConst', 'Static') or re.search(r'::(ALL|ALL_NAMED|FLAGS)$', b.path):
        return True
    f = b.file
    return '/codec/' in f or f in ('src/utils.rs', 'src/version.rs', 'src/topic.rs', 'src/types.rs', 'src/error.rs')


# ---------------------------------------------------------------- discharging rules
def payload_chunk_origin(F):
    """Decoded::PayloadChunk is constructed only inside the PublishPayload arm of Codec::decode and
    PublishPayload is assigned only in publish arms (not from FrameHeader directly); and each
    handshake/connector reads with a single recv (not in a loop)."""
    msgs = []
    for ver in ('v3', 'v5'):
        dec = F.one(r'^<%s::codec::codec::Codec as ntex_codec::Decoder>::decode$' % ver)
        st = '%s::codec::codec::DecodeState' % ver
        ve = variant_edges(F, dec, st)
        pp = arm_region(dec, ve.get('PublishPayload', []))
        if not pp:
            msgs.append('%s: PublishPayload arm not found' % ver)
        for b in F.find(r'^(<)?%s::' % ver):
            for bi, j, s in agg_sites(b, r'^%s::codec::Decoded$' % ver, 'PayloadChunk'):
                if b.d.get('impl_trait') == 'std::clone::Clone':
                    continue
                if b is not dec or bi not in pp:
                    msgs.append('%s: Decoded::PayloadChunk constructed outside the PublishPayload decoder arm: %s @ %s' % (ver, b.path, b.loc(bi)))
        fh = arm_region(dec, ve.get('FrameHeader', []))
        for bi, j, s in agg_sites(dec, r'^%s$' % re.escape(st), 'PublishPayload'):
            if bi in fh:
                msgs.append('%s: DecodeState::PublishPayload entered directly from FrameHeader @ %s' % (ver, dec.loc(bi)))
    return msgs


def stop_some(F):
    """Every construction of IoDispatcherState::Stop wraps Option::Some; in Dispatcher::poll every
    path from `stop.take()` back to the loop head either leaves the Stop state or stores Some back."""
    msgs = []
    n = 0
    for b in F.find(r'^(<)?io::'):
        for bi, j, s in agg_sites(b, r'^io::IoDispatcherState$', 'Stop'):
            n += 1
            og = Origin(b).of_operand(s['rv']['fields'][0])
            if not any(l[0] == 'agg' and l[1] == 'std::option::Option::Some' for l in og) or any(l[0] == 'agg' and l[1] == 'std::option::Option::None' for l in og):
                msgs.append('IoDispatcherState::Stop constructed without Some(..) in %s @ %s' % (b.path, b.loc(bi)))
    if n < 1:
        msgs.append('no construction of IoDispatcherState::Stop found (anchor lost)')
    poll = F.one(r'^<io::Dispatcher<P, C, U, E> as std::future::Future>::poll$')
    takes = [(bi, t) for bi, t in poll.calls_to(r'^std::option::Option::<T>::take$')]
    # the take feeding the unwrap
    for bi, t in takes:
        ty = poll.local_ty(t['dest']['l'])
        if 'ControlFut' not in ty and 'Pin<' not in ty and 'Future' not in ty and 'CallFuture' not in ty:
            continue
        # after the take: every path to the next loop iteration (a back edge into a dominator) passes
        # an assignment to the state (`*st = ...`) or a write `*stop = Some(..)`
        restores = set()
        for xb, xj, s in poll.assigns():
            if s['rv']['k'] == 'agg' and s['rv'].get('adt') == 'std::option::Option' and s['rv'].get('variant') == 'Some' and place_proj(s['lhs']) and s['lhs']['p'][0] == '*':
                restores.add(xb)
            if s['rv']['k'] == 'agg' and s['rv'].get('adt') == 'io::IoDispatcherState':
                restores.add(xb)
        for xb, xj, s in poll.stmts():
            if s['k'] == 'setdiscr':
                restores.add(xb)
        back = [x for x in poll.live for y in poll.succ[x] if poll.dominates(y, x) and poll.dominates(y, bi)]
        reach = poll.reachable_after(bi, avoid=restores)
        bad = [x for x in back if x in reach]
        if bad:
            msgs.append('Dispatcher::poll: after stop.take() the loop can iterate again without restoring Some(fut) or changing state (via bb%s)' % bad[0])
    return msgs


def router_index(F):
    msgs = []
    n = 0
    for ver in ('v3', 'v5'):
        b = F.one(r'^%s::router::Router::<S, Err>::resource$' % ver)
        paths = list(b.calls_to(r'ntex_router::RouterBuilder::<U>::path$|RouterBuilder::<T>::path$|RouterBuilder.*::path$'))
        pushes = calls_on_field(b, r'Vec::<T, A>::push$', 'handlers')
        for bi, t in paths:
            n += 1
            og = Origin(b).of_operand(t['args'][2])
            if not any(l[0] == 'call' and l[1].endswith('::len') for l in og):
                msgs.append('%s Router::resource registers an index that is not handlers.len() (%s)' % (ver, sorted(map(str, og))[:3]))
            if not pushes or not all(any(pb in b.reachable_after(bi) for pb, _, _ in pushes) for _ in [0]):
                msgs.append('%s Router::resource: no handlers.push after registering the index' % ver)
        # create(): one service per handler: a push inside a loop over self.handlers
        c = F.one(r'^<%s::router::RouterFactory<S, Err> as ntex_service::ServiceFactory<.*>>::create::\{closure#0\}$' % ver)
        if not list(c.calls_to(r'Vec::<T, A>::push$')):
            msgs.append('%s RouterFactory::create does not push one service per handler' % ver)
    if n < 2:
        msgs.append('router registration sites not found (anchor lost)')
    return msgs


def c06_ok(F):
    import c06, runner
    rep = runner.Report('C06', 'quick')
    for ver in ('v3', 'v5'):
        c06.type_before_complete(F, rep, ver)
        c06.is_match_table(F, rep, ver)
        c06.conversion_pairing(F, rep, ver)
    return ['%s: %s' % (i['key'], i['msg']) for i in rep.items if not i['ok']]


def next_id_ok(F):
    import c06, runner
    rep = runner.Report('C06', 'quick')
    for ver in ('v3', 'v5'):
        c06.next_id_invariant(F, rep, ver)
    return ['%s: %s' % (i['key'], i['msg']) for i in rep.items if not i['ok']]


DISCHARGERS = {'C06': c06_ok, 'payload-chunk-origin': payload_chunk_origin, 'stop-some': stop_some, 'next-id': next_id_ok, 'router-index': router_index}


def run(F, R):
    roots = []
    for pat in ROOT_PATS:
        roots += [b.path for b in F.find(pat)]
    R.floor('C16.sites', 'root bodies', len(set(roots)), 150)
    cg = F.callgraph_from(sorted(set(roots)))
    R.counts['C16.sites:reachable bodies'] = len(cg)
    dis_cache = {}
    used = defaultdict(int)
    nsites = 0
    for p in sorted(cg):
        b = F.bodies[p]
        if excluded_body(b):
            continue  # compile-time evaluated, or covered by C02/C09/C18 with their own roots
        per_fn = defaultdict(int)
        for s in panics.sites(b):
            if s['kind'] == 'borrow':
                continue
            nsites += 1
            key = '%s|%s|%s' % (p, s['kind'], s['what'])
            per_fn[key] += 1
            if per_fn[key] > 1:
                key += '#%d' % per_fn[key]
            # auto-provers
            if s['kind'] == 'unwrap' and const_unwrap(b, s):
                R.ob('C16.sites', key, True, 'PROVEN: unwrap of NonZero::new(non-zero literal)', s['loc'], status='proven')
                continue
            if s['kind'] == 'assert' and guarded_arith(b, s):
                R.ob('C16.sites', key, True, 'PROVEN: guarded by a dominating comparison / constant shift', s['loc'], status='proven')
                continue
            ent = None
            ptop = re.sub(r'(::\{(closure|inl)#\d+\})+$', '', p)
            for i, (fre, kre, wre, cls, reason, cnt) in enumerate(TABLE):
                if (re.search(fre, p) or re.search(fre, ptop)) and re.fullmatch(kre, s['kind']) and re.search(wre, s['what']):
                    ent = (i, cls, reason, cnt)
                    break
            if ent is None:
                R.ob('C16.sites', key, False, 'panic-capable site reachable from peer-driven entry points (%s) is neither proven nor in the reviewed table: %s %s' % (
                    ' <- '.join(F.chain(cg, p)[-3:]), s['kind'], s['what']), s['loc'])
                continue
            i, cls, reason, cnt = ent
            used[(i, p)] += 1
            if used[(i, p)] > cnt:
                R.ob('C16.sites', key + '|extra', False, 'more sites of this shape than reviewed (%d > %d): %s' % (used[(i, p)], cnt, reason), s['loc'])
                continue
            if cls.startswith('DISCHARGED:'):
                name = cls.split(':', 1)[1]
                if name not in dis_cache:
                    dis_cache[name] = DISCHARGERS[name](F)
                msgs = dis_cache[name]
                R.ob('C16.sites', key, not msgs, ('DISCHARGED by %s: %s' % (name, reason)) if not msgs else ('discharging rule %s fails: %s' % (name, '; '.join(msgs)[:600])), s['loc'], status='discharged-by-rule' if not msgs else None)
            else:
                R.ob('C16.sites', key, True, '%s: %s' % (cls, reason), s['loc'], status=cls.lower())
                if cls == 'ASSUMED':
                    R.assume('%s %s: %s' % (p, s['what'], reason))
    R.floor('C16.sites', 'panic-capable sites examined', nsites, 55)
    # RefCell guards across awaits (zero expected; positive example kept in selftest)
    ncor = 0
    for b in F.bodies.values():
        if not b.is_coroutine:
            continue
        ncor += 1
        for bb, yb, ap in panics.borrows_across_yield(b):
            R.ob('C16.refcell', '%s|%s' % (b.path, panics.short_ap(ap)), False,
                 'a RefCell guard obtained here may still be alive at an await: a re-entrant borrow from another task on the same connection panics (BorrowMutError)', b.loc(bb))
    R.ob('C16.refcell', 'all-coroutines', True, 'examined %d coroutine bodies for RefCell guards alive across a Yield' % ncor)
    R.floor('C16.refcell', 'coroutine bodies', ncor, 120)
    reentrancy(F, R)
    # sibling rule on the PayloadChunk arm
    for d in all_dispatchers(F):
        b = d.call
        region = d.arm('PayloadChunk')
        if not region:
            raise AnchorLost('%s: PayloadChunk arm not found' % d.name)
        takes = [(bi, t) for bi, t in b.calls_to(r'^std::cell::Cell::<T>::take$') if bi in region and (call_recv_path(b, t, 0) or ('',))[-1] == 'payload']
        ok = False
        for bi, t in takes:
            r = discr_switch_after_call(b, bi)
            if r:
                sb, tg, oth = r
                none_t = tg.get(0, oth)
                some_t = tg.get(1, oth)
                nreg = b.reachable(none_t, avoid=[some_t]) & region
                ok = any(bi2 in nreg for bi2, j, s in agg_sites(b, r'^error::DecodeError$', 'UnexpectedPayload'))
        R.ob('C16.arms', '%s|PayloadChunk|absent-sender=>UnexpectedPayload' % d.name, ok,
             'sibling rule: a payload chunk without a payload stream must end in ProtocolError::Decode(UnexpectedPayload) (servers do; a client that unwraps panics)', None)
        # no diverging (panicking) call is reachable in any arm without being enumerated above: covered by C16.sites


def cell_key(body, op):
    """(owner type, field) of the RefCell a borrow()/borrow_mut() call is applied to."""
    p = op_place(op)
    for _ in range(6):
        if p is None:
            return None
        flds = [e for e in place_proj(p) if isinstance(e, dict) and 'f' in e]
        if flds:
            return (flds[-1].get('adt') or '?', str(flds[-1]['f']))
        ds = [d for d in body.whole_defs(p['l']) if d[0] in body.live]
        if len(ds) != 1:
            return None
        d = ds[0]
        if d[2] == 'assign' and d[3]['rv']['k'] == 'ref':
            p = d[3]['rv']['place']
        elif d[2] == 'assign' and d[3]['rv']['k'] == 'use':
            p = op_place(d[3]['rv']['op'])
        elif d[2] == 'call' and APATH_TRANSPARENT.search(callee_name(d[3]) or '') and d[3]['args']:
            p = op_place(d[3]['args'][0])
        else:
            return None
    return None


def reentrancy(F, R):
    """A RefCell of the connection state is never borrowed again while a guard on it is alive: for every borrow()/borrow_mut()
    in the crate, no call made while the guard lives reaches (through resolved callees and closures handed to that call)
    another borrow of the same cell that conflicts with it (any pairing but shared/shared). Such a nesting is a BorrowMutError
    panic on whatever peer packet drives that path. Cells are identified by owner type and field; application callbacks
    (dyn Fn) are not followed."""
    direct = {}
    for p, b in F.bodies.items():
        lst = []
        for bi, t in b.calls_to(panics.BORROW_CALL):
            k = cell_key(b, t['args'][0]) if t['args'] else None
            if k:
                lst.append((bi, 'mut' if (callee_name(t) or '').endswith('borrow_mut') else 'shared', k, t))
        direct[p] = lst
    # transitive summaries over resolved local callees (closures built in a body count as called by it)
    trans = {p: {(k, kind) for bi, kind, k, t in lst} for p, lst in direct.items()}
    callees = {}
    for p, b in F.bodies.items():
        cs = set()
        for bi, t in b.calls():
            for q in F.call_targets(t, expand_traits=False):
                if q in F.bodies and not F.bodies[q].is_coroutine:
                    cs.add(q)
        for c in F.children.get(p, []):
            cp = c.path if hasattr(c, 'path') else c
            if cp in F.bodies and not F.bodies[cp].is_coroutine:
                cs.add(cp)
        callees[p] = cs
    changed = True
    while changed:
        changed = False
        for p, cs in callees.items():
            for q in cs:
                add = trans.get(q, set()) - trans[p]
                if add:
                    trans[p] |= add
                    changed = True
    n = 0
    for p, b in sorted(F.bodies.items()):
        for bi, kind, k, t in direct[p]:
            if place_proj(t['dest']) or t.get('target') is None:
                continue
            n += 1
            region = panics.guard_blocks(b, t['dest']['l'], [t['target']])
            for x in sorted(region):
                tt = b.blocks[x]['term']
                if tt['k'] != 'call' or x == bi:
                    continue
                hits = []
                nm = callee_name(tt) or ''
                if panics.BORROW_CALL.search(nm):
                    k2 = cell_key(b, tt['args'][0]) if tt['args'] else None
                    kind2 = 'mut' if nm.endswith('borrow_mut') else 'shared'
                    if k2 == k and 'mut' in (kind, kind2):
                        hits.append('borrows it again here')
                if re.search(r'^std::ops::(Fn|FnMut|FnOnce)::call(_mut|_once)?$', nm) and tt['args'] and op_place(tt['args'][0]) is not None \
                        and re.search(r'\bdyn ', b.local_ty(op_place(tt['args'][0])['l']) or ''):
                    # a callback the application registered (boxed dyn Fn): it may call back into the sink, and every sink
                    # entry point looks at this cell (is_ready()/credit() borrow `queues`)
                    R.ob('C16.refcell', '%s|%s.%s|application-callback-runs-without-the-guard' % (re.sub(r'(::\{(closure|inl)#\d+\})+$', '', p), k[0].split('::')[-1], k[1]), False,
                         'the application\'s callback (%s) is invoked while the %s guard on %s.%s is alive: any use of the sink inside the callback (credit(), is_ready(), sending the next message) is a BorrowMutError panic, on a PUBACK the peer sends' % (
                             b.local_ty(op_place(tt['args'][0])['l']), kind, k[0], k[1]), b.loc(x))
                tgts = [q for q in F.call_targets(tt, expand_traits=False) if q in F.bodies]
                # closures handed to this call run inside it
                for a in tt.get('args', []):
                    for l_ in Origin(b).of_operand(a):
                        if l_[0] == 'agg' and l_[1] in F.bodies and F.bodies[l_[1]].d.get('kind') == 'Closure':
                            tgts.append(l_[1])
                for q in tgts:
                    if F.bodies[q].is_coroutine:
                        continue
                    for k2, kind2 in trans.get(q, ()):
                        if k2 == k and 'mut' in (kind, kind2):
                            hits.append('calls %s, which borrows it again' % q)
                            break
                if hits:
                    R.ob('C16.refcell', '%s|%s.%s|no-second-borrow-while-the-guard-lives|%s' % (re.sub(r'(::\{(closure|inl)#\d+\})+$', '', p), k[0].split('::')[-1], k[1], (nm.split('::')[-1] or '?')), False,
                         'the %s guard on %s.%s taken here is still alive where the code %s: BorrowMutError panic on the path that reaches it' % (kind, k[0], k[1], hits[0]), b.loc(x))
    R.ob('C16.refcell', 'no-nested-conflicting-borrow', True, 'examined %d RefCell borrows for a conflicting borrow of the same cell while the guard is alive' % n)
    R.floor('C16.refcell', 'RefCell borrows examined', n, 40)
