"""C14 (structural part): keyed-handoff: the PUBCOMP receiver that release_publish returns must
depend on the packet id it is called with, the PUBREC branch of pkt_ack_inner must not overwrite an
occupied per-connection slot, and the PUBCOMP branch must not clear state belonging to another id;
own-pubrel: release_publish writes exactly one PUBREL carrying its argument's id on the path where
the hand-off succeeded, Drop for PublishReceived releases iff the Option was not taken and
release(self) takes it; requeue: the PUBREC branch re-queues (same id, AckType::Complete) and keeps
the id reserved. All delivery orders are not decided (the violated clause is order independent). own-pubrel (continued): from the Some edge of the keyed receiver removal no return is reachable without the PUBREL write; release() completes only through release_publish. own-pubrel (continued): a PublishReceived receipt is constructed only in the async part of the send, after the acknowledgement was awaited.
"""
from facts import *
from disp import agg_sites

IO_ENCODE = r'^ntex_io::.*IoRef>::encode$'


def keyed_handoff(F, R, ver):
    b = F.one(r'^%s::shared::MqttShared::release_publish$' % ver)
    # where does the returned receiver come from?
    oks = [(bi, j, s) for bi, j, s in agg_sites(b, r'^std::result::Result$', 'Ok') if s['lhs']['l'] in b.ret_locals]
    wide = re.compile(TRANSPARENT_CALLS.pattern[:-2] + r'|take|remove|get_mut|remove_entry)$')
    rx_takes = [(xb, t) for xb, t in b.calls() if re.search(r'::(take|remove|remove_entry)$', callee_name(t) or '') and (call_recv_path(b, t, 0) or ('',))[-1] == 'rx']
    R.ob('C14.keyed-handoff', '%s|release_publish|Ok-exits' % ver, len(oks) >= 1 or bool(rx_takes), 'found %d Ok results and %d accesses of the receiver store' % (len(oks), len(rx_takes)))
    if not oks and rx_takes:
        # the Ok value is assembled by combinators (`.map(|()| rx).map_err(..)`): judge the access of the receiver store itself
        oks = [(rx_takes[0][0], 0, {'rv': {'fields': [{'cp': {'l': rx_takes[0][1]['dest']['l']}}]}})]
    for bi, j, s in oks:
        og = Origin(b, transparent=wide).of_operand(s['rv']['fields'][0])
        srcs = sorted({l[1] for l in og if l[0] == 'call'})
        takes = [(xb, t) for xb, t in b.calls() if re.search(r'::(take|remove|remove_entry)$', callee_name(t) or '') and (call_recv_path(b, t, 0) or ('',))[-1] == 'rx']
        keyed = False
        for xb, t in takes:
            # a keyed container is accessed with a key argument deriving from the packet / id parameter
            if len(t['args']) >= 2:
                a = leaves_args(Origin(b, transparent=wide).of_operand(t['args'][1]))
                if any(x == 2 for x, _ in a):
                    keyed = True
        R.ob('C14.keyed-handoff', '%s|release_publish|receiver-depends-on-packet-id' % ver, keyed,
             'release_publish(id) returns whatever receiver is stored in the single per-connection slot `queues.rx` (Option::take without a key): with two overlapping exactly-once sends the first release '
             'obtains the second exchange\'s PUBCOMP channel and the second release fails with UnexpectedRelease without writing its PUBREL', b.loc(bi))
    p = F.one(r'^%s::shared::MqttShared::pkt_ack_inner$' % ver)
    stores = []
    for bi, j, s in p.assigns():
        if place_fields(s['lhs'])[-1:] == ['rx'] and s['rv']['k'] in ('agg', 'use'):
            stores.append((bi, s))
    for bi, t in p.calls():
        nm = callee_name(t) or ''
        if re.search(r'::(insert|replace)$', nm) and (call_recv_path(p, t, 0) or ('',))[-1] == 'rx':
            stores.append((bi, None))
    R.ob('C14.keyed-handoff', '%s|pkt_ack_inner|PUBREC stores the PUBCOMP receiver' % ver, len(stores) >= 1, 'found %d stores into queues.rx' % len(stores))
    for bi, s in stores:
        guarded = False
        if s is None:
            guarded = True  # keyed insert
        else:
            # plain overwrite: acceptable only if dominated by an `is_none()` test of the slot
            for xb, t in p.calls_to(r'^std::option::Option::<T>::is_(none|some)$'):
                if (call_recv_path(p, t, 0) or ('',))[-1] == 'rx':
                    r = call_bool_branch(p, xb)
                    if r and r[0] != 'discr':
                        tgt = r[1] if callee_name(t).endswith('is_none') else r[2]
                        guarded = guarded or edge_dominates(p, r[0], tgt, bi)
        R.ob('C14.keyed-handoff', '%s|pkt_ack_inner|PUBREC-store-does-not-overwrite' % ver, guarded,
             'the PUBREC branch overwrites the single slot queues.rx unconditionally: the receiver of an earlier, not yet released exactly-once send is dropped', p.loc(bi))
    clears = [(bi, t) for bi, t in p.calls_to(r'^std::option::Option::<T>::take$|::clear$|::drain$') if (call_recv_path(p, t, 0) or ('',))[-1] == 'rx']
    for bi, t in p.calls():
        if re.search(r'::(remove|remove_entry)$', callee_name(t) or '') and (call_recv_path(p, t, 0) or ('',))[-1] == 'rx':
            kp = apath(p, t['args'][1]) if len(t['args']) > 1 else None
            R.ob('C14.keyed-handoff', '%s|pkt_ack_inner|PUBCOMP-removes-own-id' % ver, kp is not None and any('packet_id' in x for x in kp), 'the receiver removed at PUBCOMP is not keyed by the acknowledged packet id (%s)' % apath_str(kp), p.loc(bi))
    for bi, t in clears:
        R.ob('C14.keyed-handoff', '%s|pkt_ack_inner|PUBCOMP-clears-only-own-state' % ver, False,
             'the PUBCOMP branch clears queues.rx regardless of the packet id: it discards the receiver stored for another exchange whose PUBREC arrived in between', p.loc(bi))


def receipt_after_pubrec(F, R, ver):
    """A PublishReceived receipt releases its exchange when it is dropped (PUBREL on Drop). It therefore comes into existence
    only once the PUBREC has arrived: every construction (struct literal / PublishReceived::new) sits in the async part of
    the send - in a coroutine body behind the Ready edge of an await, or in a closure that coroutine applies to the awaited
    result. A receipt built eagerly, before the PUBLISH is registered, is dropped on the PacketIdInUse error path and
    releases the *other* exchange that owns that id."""
    n = 0
    for b in F.find(r'^(<)?%s::sink::' % ver):
        sites = [bi for bi, j, s in agg_sites(b, r'^%s::sink::PublishReceived$' % ver)]
        sites += [bi for bi, t in b.calls_to(r'^%s::sink::PublishReceived::new$' % ver)]
        if b.path.startswith('%s::sink::PublishReceived::' % ver):
            continue    # its own constructor / builder methods
        for bi in sites:
            n += 1
            anc = b
            co = None
            for _ in range(6):
                if anc.is_coroutine:
                    co = anc
                    break
                par = anc.d.get('parent')
                anc = F.bodies.get(par) if par else None
                if anc is None:
                    break
            if co is None:
                ok = False
            elif co is b:
                ok = any(edge_dominates(b, a['switch'], a['ready'], bi) for a in await_points(b))
            else:
                ok = True
            R.ob('C14.own-pubrel', '%s|%s|receipt-built-only-after-PUBREC' % (ver, re.sub(r'(::\{(closure|inl)#\d+\})+$', '', b.path)), ok,
                 'a PublishReceived (whose Drop writes PUBREL for its packet id) is constructed before the acknowledgement was awaited: dropped on an error path it releases an exchange it does not belong to', b.loc(bi))
    R.floor('C14.own-pubrel', '%s constructions of the QoS 2 receipt' % ver, n, 1)


def own_pubrel(F, R, ver):
    receipt_after_pubrec(F, R, ver)
    b = F.one(r'^%s::shared::MqttShared::release_publish$' % ver)
    encs = [(bi, t) for bi, t in b.calls_to(IO_ENCODE)]
    R.ob('C14.own-pubrel', '%s|release_publish|one-PUBREL-write' % ver, len(encs) == 1, 'found %d wire writes' % len(encs))
    for bi, t in encs:
        og = Origin(b).of_operand(t['args'][1])
        is_rel = any(l[0] == 'agg' and l[1].endswith('Packet::PublishRelease') for l in og)
        from_arg = any(l[0] == 'arg' and l[1] == 2 for l in og)
        R.ob('C14.own-pubrel', '%s|release_publish|PUBREL-carries-argument' % ver, is_rel and from_arg, 'the packet written is not PublishRelease(<argument>) (origin %s)' % sorted(map(str, og))[:4], b.loc(bi))
        R.ob('C14.own-pubrel', '%s|release_publish|not-in-loop' % ver, bi not in b.reachable_after(bi), 'PUBREL written in a loop', b.loc(bi))
    # a receiver that was taken out of the store belongs to an exchange whose PUBREL is now due: from the Some edge of the
    # keyed removal no return is reachable without the wire write (the only refusal is "no such id")
    for xb, t in b.calls():
        if re.search(r'::(remove|remove_entry|take)$', callee_name(t) or '') and (call_recv_path(b, t, 0) or ('',))[-1] == 'rx':
            r = discr_switch_after_call(b, xb)
            if not r:
                R.undecided('C14.own-pubrel', '%s|release_publish|receiver-taken=>PUBREL-written' % ver, 'the result of the keyed removal is not matched right after the call', b.loc(xb))
                continue
            sb, tg, oth = r
            some_t = tg.get(1, oth)
            lost = sorted(set(b.returns()) & b.reachable(some_t, avoid={x for x, _ in encs}))
            R.ob('C14.own-pubrel', '%s|release_publish|receiver-taken=>PUBREL-written' % ver, bool(encs) and not lost,
                 'release_publish removes the completion receiver of the exchange from the store and can then return without writing the PUBREL (a further condition on the Some side): the receiver is dropped, the exchange can never complete and keeps its window slot and id', b.loc(xb))
    # Drop / release typestate
    d = F.one(r'^<%s::sink::PublishReceived as std::ops::Drop>::drop$' % ver)
    takes = [(bi, t) for bi, t in d.calls_to(r'^std::option::Option::<T>::take$')]
    rels = [(bi, t) for bi, t in d.calls_to(r'^%s::shared::MqttShared::release_publish$' % ver)]
    ok = False
    for bi, t in takes:
        r = discr_switch_after_call(d, bi)
        if r:
            sb, tg, oth = r
            some_t = tg.get(1, oth)
            ok = all(edge_dominates(d, sb, some_t, x) for x, _ in rels) and bool(rels) and not (set(d.returns()) & d.reachable(some_t, avoid={x for x, _ in rels}))
    R.ob('C14.own-pubrel', '%s|PublishReceived::drop|releases-iff-not-taken' % ver, ok, 'dropping the receipt must write its PUBREL exactly when release() has not taken the packet/id')
    rl = F.one(r'^%s::sink::PublishReceived::release::\{closure#0\}$' % ver)
    takes = [bi for bi, t in rl.calls_to(r'^std::option::Option::<T>::take$')]
    rels = [bi for bi, t in rl.calls_to(r'^%s::shared::MqttShared::release_publish$' % ver)]
    R.ob('C14.own-pubrel', '%s|PublishReceived::release|takes-then-releases-once' % ver, len(takes) == 1 and len(rels) == 1 and rl.must_pass(set(takes), rels[0]), 'release(self) must take the Option before calling release_publish (so Drop does not release again)')
    skipped = sorted(set(rl.returns()) & rl.reachable(0, avoid=set(rels)))
    R.ob('C14.own-pubrel', '%s|PublishReceived::release|every-completion-went-through-release_publish' % ver, bool(rels) and not skipped,
         'release() can complete without calling release_publish (e.g. depending on the PUBREC reason code): the caller is told Ok although no PUBREL was written, the exchange stays outstanding', rl.loc(skipped[0]) if skipped else None)
    gates = [bi for bi, t in rl.calls_to(r'^%s::shared::MqttShared::(wait_readiness|is_ready)$' % ver)]
    ys_before = [y for y in rl.yields() if rels and rels[0] in rl.reachable_after(y)]
    R.ob('C14.own-pubrel', '%s|PublishReceived::release|not-gated-by-the-window' % ver, not gates and not ys_before,
         'release() waits (window / readiness) before writing its PUBREL: the exchange being released already occupies a slot until PUBCOMP, so with a full window every release waits for another exchange and none can complete',
         rl.loc(gates[0]) if gates else (rl.loc(ys_before[0]) if ys_before else None))
    sig = F.fns.get('%s::sink::PublishReceived::release' % ver, {}).get('sig', '')
    R.ob('C14.own-pubrel', '%s|PublishReceived::release|consumes-self' % ver, re.search(r'fn\(%s::sink::PublishReceived\)' % ver, sig) is not None, 'signature: %s' % sig)


def requeue(F, R, ver):
    p = F.one(r'^%s::shared::MqttShared::pkt_ack_inner$' % ver)
    pushes = calls_on_field(p, r'VecDeque::<T, A>::push_back$', 'inflight')
    fronts = calls_on_field(p, r'VecDeque::<T, A>::(push_front|insert)$', 'inflight')
    R.ob('C14.requeue', '%s|pkt_ack_inner|requeue-sites' % ver, len(pushes) == 1, 'found %d' % len(pushes))
    R.ob('C14.requeue', '%s|pkt_ack_inner|requeue-at-the-tail' % ver, not fronts,
         'the entry awaiting PUBCOMP is re-queued at the head of the in-order ack queue: the next acknowledgement of another outstanding send (e.g. the PUBREC of a second exactly-once send) mismatches and the connection is closed',
         p.loc(fronts[0][0]) if fronts else None)
    for bi, t, ap in pushes:
        og = Origin(p).of_operand(t['args'][1])
        ok_tp = any(l[0] == 'agg' and l[1].endswith('AckType::Complete') for l in og)
        ok_id = any(l[0] == 'call' and re.search(r'VecDeque::<T, A>::(pop_front|remove)$', l[1]) for l in og)
        removes = {x[0] for x in calls_on_field(p, r'HashSet::<T, S, A>::remove$', 'inflight_ids')}
        shared_path = [r_ for r_ in removes if r_ in p.reachable_after(bi) or bi in p.reachable_after(r_)]
        R.ob('C14.requeue', '%s|pkt_ack_inner|id-stays-reserved-at-PUBREC' % ver, not shared_path,
             'the packet id is released from inflight_ids on the PUBREC path although the exchange is still open (PUBREL/PUBCOMP outstanding): a concurrent send may reuse it', p.loc(bi))
        R.ob('C14.requeue', '%s|pkt_ack_inner|requeues (same id, Complete)' % ver, ok_tp and ok_id, 'the re-queued entry must carry the popped id and AckType::Complete (origin %s)' % sorted(map(str, og))[:5], p.loc(bi))


def run(F, R):
    for ver in ('v3', 'v5'):
        keyed_handoff(F, R, ver)
        own_pubrel(F, R, ver)
        requeue(F, R, ver)
