"""C18 (structural part): valid-dfa: topic::is_valid is a byte automaton; its transition table
(PrevState x byte class -> next state | reject) is extracted from MIR and proved EQUIVALENT, by product
construction over all strings, to the MQTT 4.7.1 validity automaton in spec/topic_filter_dfa.json; the
SUBSCRIBE/UNSUBSCRIBE arms run is_valid over every filter and map false to Subs_4_7_1.
match-table: the case tables of the three MatchLevel implementations are extracted (filter level kind
x topic level kind x index==0 x is-system) and compared with 4.7; end-of-input rules of match_topic;
the filter-vs-filter relation must be monotone w.r.t. the string relation (whenever sub is covered by
sup at index i, every topic level matched by sub at i is matched by sup at i). param-use: every
parameter of match_level_impl influences the result. match-loop: one iteration of match_topic (topic has a level / is exhausted x the filter's next level kind x result of match_level) is extracted and compared with 4.7 (filter exhausted -> false, `#` -> result of the level test, other levels continue iff they match; the level test is applied to the current topic level, that filter level and its index). parse-table: the per-level classifier of TryFrom<ByteString> (closure or loop form) is extracted and evaluated for sample level texts and positions (`+`, `#`, empty, text with a wildcard character -> error, `$..` at position 0 -> System, else Normal; stored text is the level's own), the input is split at `/`, positions count from 0, empty input is refused, the structural validator decides last. display: Display for TopicFilterLevel as a table (own text / nothing / `+` / `#`) - the inverse of the classifier - and the separator of Display for TopicFilter is `/`, written by position only (never depending on text written so far). Agreement of TopicFilter::is_valid (iterator combinators over level sequences) with the string validator is not decided. parse-table (continued): FromStr hands its argument to the parser unchanged. match-table (continued): `is_system` is evaluated on sample level texts (concrete-string call model) and must be true exactly for texts beginning with `$`. parse-table (continued): a TopicFilter value is built only where TopicFilter::is_valid gates the Ok result (who-may-construct). match-loop (continued): matches_filter and matches_topic return the result of the shared loop match_topic and nothing else.
"""
import json, os, re
from facts import *
from disp import *
from symex import SymEx, term_str_v, term_has

VERIF = os.path.dirname(os.path.dirname(os.path.abspath(__file__)))
LEVEL = 'topic::TopicFilterLevel'


def extract_valid_dfa(F, R):
    b = F.one(r'^topic::is_valid$')
    # the scanner state: the fieldless enum of the topic module whose values are built inside is_valid (`PrevState`; a
    # refactoring may hoist or rename it, or move the transition table into a method that is spliced back)
    cands = set()
    for bi, j, s_ in b.assigns():
        rv_ = s_['rv']
        if rv_['k'] == 'agg' and rv_.get('agg') == 'adt' and rv_.get('adt', '').startswith('topic::') and rv_['adt'] in F.adts \
                and rv_['adt'] not in (LEVEL, 'topic::TopicFilterError') and all(not v_.get('fields') for v_ in F.adts[rv_['adt']]['variants']):
            cands.add(rv_['adt'])
    if len(cands) != 1:
        raise AnchorLost('scanner state enum of is_valid (candidates: %s)' % sorted(cands))
    ps = cands.pop()
    states = [v['name'] for v in F.adts[ps]['variants']]
    # the iterator next() call and its Some edge
    nxt = [(bi, t) for bi, t in b.calls_to(r'as std::iter::Iterator>::next$')]
    if len(nxt) != 1:
        raise AnchorLost('is_valid: iterator next() (%d)' % len(nxt))
    nbi, nt = nxt[0]
    # the automaton runs over the argument itself: nothing (strip_suffix, trim, a sub-slice) shortens or changes the string first
    og_ = Origin(b, transparent=re.compile(TRANSPARENT_CALLS.pattern[:-2] + r'|bytes|as_bytes|iter|into_iter|chars|copied)$')).of_operand(nt['args'][0])
    pre = sorted({l[1].split('::')[-1] for l in og_ if l[0] == 'call' and not re.search(r'::(bytes|as_bytes|iter|into_iter|chars|copied|deref|as_ref|as_str)$', l[1] or '')})
    R.ob('C18.valid-dfa', 'is_valid|scans-the-whole-argument', any(l[0] == 'arg' and l[1] == 1 for l in og_) and not pre,
         'the byte scan does not run over the argument itself (%s is applied first): the part cut off is accepted unchecked' % (pre or 'another value'), b.loc(nbi))
    r = discr_switch_after_call(b, nbi)
    if not r:
        raise AnchorLost('is_valid: match on next()')
    sb, tg, oth = r
    some_t, none_t = tg.get(1, oth), tg.get(0, oth)
    # the state local: the one assigned PrevState aggregates and read through discriminant
    st_locals = {s['lhs']['l'] for bi, j, s in agg_sites(b, r'^%s$' % re.escape(ps)) if not place_proj(s['lhs'])}
    # the persistent one is the one assigned before the loop (dominates the next() call)
    persistent = [l for l in st_locals if any(x[0] in b.dom[nbi] for x in b.whole_defs(l))]
    if len(persistent) != 1:
        raise AnchorLost('is_valid: state variable')
    sl = persistent[0]
    init = [s['rv']['variant'] for bi, j, s in agg_sites(b, r'^%s$' % re.escape(ps)) if s['lhs']['l'] == sl and bi in b.dom[nbi]]
    byte_local = nt['dest']['l']
    table = {}
    classes = set()
    for s in states:
        se = SymEx(b, F, loop_visits=0, stop_at=lambda bi_: bi_ == nbi)
        env = {sl: ('agg', ps, s, {}), byte_local: ('agg', 'std::option::Option', 'Some', {'0': ('sym', 'byte')})}
        paths = se.run(start_block=some_t, init_env=env)
        for p in paths:
            # byte condition
            cond = None
            for t, c in p.conds:
                if term_has(t, 'byte'):
                    cond = c if cond is None else ('and', cond, c)
            if p.end[0] == 'return':
                res = 'REJECT' if (p.ret and p.ret[0] == 'const' and p.ret[1] == 0) else 'ACCEPT?'
            elif p.end[0] in ('loop', 'stop'):
                v = p.env.get(sl)
                res = v[2] if v and v[0] == 'agg' else '?'
            else:
                res = '?' + p.end[0]
            table.setdefault(s, []).append((cond, res))
            if cond and cond[0] == 'eq':
                classes.add(cond[1])
            if cond and cond[0] == 'ne':
                classes |= set(cond[1])
    # end-of-input: None edge -> return true
    se = SymEx(b, F, loop_visits=0)
    endp = se.run(start_block=none_t, init_env={sl: ('agg', ps, states[0], {})})
    accept_at_end = all(p.end[0] == 'return' and p.ret and p.ret[0] == 'const' and p.ret[1] == 1 for p in endp) and bool(endp)
    # empty string
    se = SymEx(b, F, loop_visits=0, call_model=lambda nm, args, t, path: ('const', 1, 'bool') if nm.endswith('str>::is_empty') else None)
    emp = se.run()
    empty_rejected = all(p.end[0] == 'return' and p.ret and p.ret[0] == 'const' and p.ret[1] == 0 for p in emp) and bool(emp)
    return states, init, table, sorted(classes), accept_at_end, empty_rejected


def dfa_next(table, state, byte):
    for cond, res in table.get(state, []):
        if cond is None:
            return res
        if cond_holds(cond, byte):
            return res
    return None


def cond_holds(cond, v):
    if cond[0] == 'eq':
        return v == cond[1]
    if cond[0] == 'ne':
        return v not in cond[1]
    if cond[0] == 'and':
        return cond_holds(cond[1], v) and cond_holds(cond[2], v)
    return False


def valid_dfa(F, R):
    states, init, table, classes, accept_at_end, empty_rejected = extract_valid_dfa(F, R)
    spec = json.load(open(os.path.join(VERIF, 'spec', 'topic_filter_dfa.json')))
    R.ob('C18.valid-dfa', 'is_valid|byte-classes', set(classes) == {0x2B, 0x23, 0x2F}, 'byte constants distinguished by is_valid: %s (expected + # /)' % [hex(c) for c in classes])
    R.ob('C18.valid-dfa', 'is_valid|empty-string-rejected', empty_rejected, 'the empty string must not be a valid filter')
    R.ob('C18.valid-dfa', 'is_valid|accepts-at-end-of-input', accept_at_end, 'reaching the end of the string without rejection must accept')
    R.ob('C18.valid-dfa', 'is_valid|initial-state', len(init) == 1, 'initial state candidates %s' % init)
    reps = {'+': 0x2B, '#': 0x23, '/': 0x2F, 'o': 0x61}
    # product construction: (impl state, spec state), all strings over the 4 classes
    start = (init[0] if init else None, spec['start'])
    seen = {start}
    work = [start]
    mism = None
    shown = {}
    while work and mism is None:
        a, s = work.pop()
        for cname, byte in reps.items():
            na = dfa_next(table, a, byte)
            ns = spec['delta'][s].get(cname, 'REJECT')
            shown['%s,%s' % (a, cname)] = na
            if na is None or (na == 'REJECT') != (ns == 'REJECT'):
                mism = (a, s, cname, na, ns)
                break
            if na != 'REJECT' and (na, ns) not in seen:
                seen.add((na, ns))
                work.append((na, ns))
    R.table('is_valid transition table (extracted)', shown)
    R.ob('C18.valid-dfa', 'is_valid|equivalent-to-spec-automaton', mism is None,
         'is_valid differs from the MQTT 4.7.1 validity automaton: in implementation state %s / spec state %s on %r the implementation goes to %s, the specification to %s' % (mism if mism else ('', '', '', '', '')))
    R.counts['C18.valid-dfa:product states explored'] = len(seen)
    # dispatcher arms use it
    for d in all_dispatchers(F):
        if d.role != 'server':
            continue
        for arm in ('Packet:Subscribe', 'Packet:Unsubscribe'):
            reg = d.arm(arm)
            b = d.call
            anys = [(bi, t) for bi, t in b.calls_to(r'as std::iter::Iterator>::(any|all)$|::Iterator::(any|all)$') if bi in reg]
            ok = False
            for bi, t in anys:
                # the closure passed to this `any` (`all`) calls topic::is_valid - or is topic::is_valid itself
                og = Origin(b).of_operand(t['args'][1]) if len(t['args']) > 1 else set()
                defs = {l[1] for l in og if l[0] == 'agg'}
                cl = [x for x in F.descendants(b) if x.path in defs and any(True for _ in x.calls_to(r'^topic::is_valid$'))]
                fc_ = op_const(t['args'][1]) if len(t['args']) > 1 else None
                if fc_ and re.search(r'^topic::is_valid$', fc_.get('res') or fc_.get('fn') or ''):
                    cl = [b]
                r = call_bool_branch(b, bi)
                if cl and r and r[0] != 'discr':
                    is_all = bool(re.search(r'::all$', callee_name(t) or ''))
                    inv_t, val_t = (r[2], r[1]) if is_all else (r[1], r[2])
                    r = (r[0], inv_t, val_t)
                    treg = b.reachable(r[1], avoid=[r[2]])
                    ok = any(s['rv']['variant'] == 'Subs_4_7_1' for xb, j, s in agg_sites(b, r'^error::SpecViolation$') if xb in treg)
                    hs = [xb for xb, xt in d.call_sites(b, r'Inner::<C>::control|Inner::<C>::control_pkt') if xb in treg]
                    ok = ok and not hs
            R.ob('C18.valid-dfa', '%s|%s|invalid-filter=>Subs_4_7_1' % (d.name, arm), ok, 'the arm must validate every topic filter with topic::is_valid and end in SpecViolation::Subs_4_7_1 without reaching the handler')


def fieldless_variant(v):
    while v and v[0] in ('ref', 'deref'):
        v = v[1]
    if v and v[0] == 'agg' and v[1] == LEVEL and not v[3]:
        return v[2]
    return None


_VIDX = {}


def is_system_rule(F, R):
    """`is_system(level)` - the test the parser, the level matcher and the validators share for "this level starts with `$`"
    (4.7.2) - is evaluated on sample level texts: it must answer exactly `text begins with '$'` (a lone `$` included)."""
    from symex import bytes_model
    b = F.one(r'^topic::is_system$')
    samples = ['', '$', '$a', '$SYS', '$$', 'a', 'a$', 'SYS$x', '+', '#', ' $', '\u00e9$', '$\u00e9']
    bad, unknown = [], []
    for text in samples:
        res = set()
        for p in SymEx(b, F, call_model=bytes_model, arg_values={1: ('ref', ('bytes', text.encode()))}, max_paths=200).run():
            if p.end[0] in ('return',):
                res.add(p.ret[1] if p.ret and p.ret[0] == 'const' and not [c for c in p.conds if c[0][0] != 'assert'] else None)
            elif p.end[0] not in ('unreachable', 'infeasible'):
                res.add(None)
        if len(res) != 1 or None in res:
            unknown.append(text)
        elif bool(res.pop()) != text.startswith('$'):
            bad.append(text)
    if unknown and not bad:
        R.undecided('C18.match-table', 'is_system|true-exactly-for-texts-beginning-with-$', 'the body of is_system could not be evaluated for %s' % unknown[:4], b.loc(0))
    else:
        R.ob('C18.match-table', 'is_system|true-exactly-for-texts-beginning-with-$', not bad,
             'is_system() answers wrongly for the level text(s) %s: topics / filters whose first level is such a text are no longer kept apart from ordinary ones (wildcards match them, the parser stores a Normal level)' % bad[:4], b.loc(0))


def constructed_only_validated(F, R):
    """A TopicFilter can be built from caller-supplied levels only through the structural validator: every place that builds
    the (private) tuple struct - outside the derived Clone / Deserialize impls - hands the value to TopicFilter::is_valid and
    returns it only on the `true` edge. A second entry point with checks of its own lets a sequence in that the string parser
    and the other constructors refuse (`#` that is not last, `$..` that is not first)."""
    n = 0
    for b in F.bodies.values():
        for bi, j, s in agg_sites(b, r'^topic::TopicFilter$'):
            if s.get('mac'):
                continue   # derive(Clone) copies a value that exists; derive(Deserialize) is outside the property (serde input)
            n += 1
            gates = []
            for vb, t in b.calls_to(r'^topic::TopicFilter::is_valid$'):
                if any(l[0] == 'agg' and l[1].startswith('topic::TopicFilter') and l[2] == bi for l in Origin(b).of_operand(t['args'][0])):
                    r = call_bool_branch(b, vb)
                    if r and r[0] != 'discr':
                        gates.append((r[0], r[1]))
            oks = [ob for ob, oj, os_ in agg_sites(b, r'^std::result::Result$', 'Ok') if ob in b.reachable(bi)]
            rets = [rb for rb in b.returns() if rb in b.reachable(bi)]
            ok = bool(gates) and bool(oks) and all(any(edge_dominates(b, sb, tb, ob) for sb, tb in gates) for ob in oks) and \
                all(re.search(r'^std::result::Result<topic::TopicFilter, ', b.local_ty(0) or '') for _ in rets)
            R.ob('C18.parse-table', '%s|built-value-returned-only-when-is_valid()' % re.sub(r'^<topic::TopicFilter as (.*)>::', r'\1::', b.path), ok,
                 'a TopicFilter is built here and handed out without passing TopicFilter::is_valid on the true edge: this entry point accepts level sequences the other constructors refuse', b.loc(bi))
    R.floor('C18.parse-table', 'TopicFilter construction sites', n, 1)


def matchers_share_the_loop(F, R):
    """Both public matchers - filter against topic name, filter against filter - are the one loop `match_topic` (whose steps
    are checked above) applied to their kind of level sequence; the value they return is its result, nothing else. A second,
    hand-written walk (zip of the two level lists ..) has end-of-input rules of its own."""
    n = 0
    for fn in ('matches_filter', 'matches_topic'):
        for b in F.find(r'^topic::TopicFilter::%s$' % fn):
            n += 1
            mt = [bi for bi, t in b.calls_to(r'^topic::match_topic$')]
            og = Origin(b).of_operand({'mv': {'l': 0, 'p': []}})
            only = bool(mt) and all(b.must_pass(mt, rb) for rb in b.returns()) and \
                {l[2] for l in og if l[0] == 'call'} == set(mt) and not any(l[0] in ('const', 'binop') for l in og)
            R.ob('C18.match-loop', 'TopicFilter::%s|result-is-match_topic' % fn, only,
                 'the matcher does not return the result of the shared loop match_topic (own walk over the levels, or the result combined with something else): its end-of-input and `#` / `$` rules are not the checked ones', b.loc(0))
    R.floor('C18.match-loop', 'public matchers', n, 2)


def atom_model(nm, args, t, path):
    base = nm.split('::')[-1]
    if base in ('eq', 'ne') and len(args) == 2:
        for a, o in ((args[0], args[1]), (args[1], args[0])):
            fv = fieldless_variant(a)
            if fv is not None and fv in _VIDX:
                x = o
                while x[0] == 'ref':
                    x = x[1]
                cmp_ = ('bin', 'Eq', ('discr', x), ('const', _VIDX[fv], 'isize'))
                return cmp_ if base == 'eq' else ('un', 'Not', cmp_)
    if nm.endswith('topic::is_system'):
        return ('atom', 'sys')
    if base == 'is_empty':
        return ('atom', 'empty')
    if base in ('eq',) and 'PartialEq' in nm:
        return ('atom', 'eq')
    if base in ('ne',) and 'PartialEq' in nm:
        return ('un', 'Not', ('atom', 'eq'))
    return None


def ev_bool(t, env):
    k = t[0]
    if k == 'const':
        return bool(t[1])
    if k == 'atom':
        return env[t[1]]
    if k == 'un' and t[1] == 'Not':
        return not ev_bool(t[2], env)
    if k == 'bin':
        if t[1] == 'Eq':
            return ev_val(t[2], env) == ev_val(t[3], env)
        if t[1] == 'Ne':
            return ev_val(t[2], env) != ev_val(t[3], env)
        if t[1] in ('Gt', 'Lt', 'Ge', 'Le'):
            a_, b_ = ev_val(t[2], env), ev_val(t[3], env)
            return {'Gt': a_ > b_, 'Lt': a_ < b_, 'Ge': a_ >= b_, 'Le': a_ <= b_}[t[1]]
        if t[1] == 'BitAnd':
            return ev_bool(t[2], env) and ev_bool(t[3], env)
        if t[1] == 'BitOr':
            return ev_bool(t[2], env) or ev_bool(t[3], env)
    raise ValueError('cannot evaluate %s' % term_str_v(t))


def ev_val(t, env):
    if t[0] == 'const':
        return t[1]
    if t[0] == 'arg' and t[1] == 3:
        return env['index']
    if t[0] == 'discr':
        inner = t[1]
        while inner[0] in ('deref', 'ref'):
            inner = inner[1]
        if inner[0] == 'arg':
            return env['discr%d' % inner[1]]
    if t[0] in ('bin', 'un', 'atom'):
        return int(ev_bool(t, env))
    raise ValueError('value %s' % term_str_v(t))


def path_matches(p, env):
    for t, c in p.conds:
        if t[0] == 'atom':
            v = int(env[t[1]])
        elif t[0] == 'un' and t[1] == 'Not' and t[2][0] == 'atom':
            v = int(not env[t[2][1]])
        else:
            try:
                v = ev_val(t, env) if t[0] in ('discr', 'arg', 'const') else int(ev_bool(t, env))
            except ValueError:
                return None
        if c[0] == 'eq' and v != c[1]:
            return False
        if c[0] == 'ne' and v in c[1]:
            return False
    return True


def eval_fn(paths, env):
    for p in paths:
        m = path_matches(p, env)
        if m:
            if p.ret is None:
                return None
            try:
                return ev_bool(p.ret, env)
            except ValueError:
                return None
    return None


def level_variants(F):
    return [v['name'] for v in F.adts[LEVEL]['variants']]


def match_tables(F, R):
    variants = level_variants(F)
    vidx = {n: i for i, n in enumerate(variants)}
    _VIDX.update(vidx)
    # --- string impl: <T as MatchLevel>::match_level
    sb = F.one(r'^<T as topic::MatchLevel>::match_level$')
    sp = [p for p in SymEx(sb, F, call_model=atom_model).run() if p.end[0] == 'return']
    R.ob('C18.match-table', 'str-impl|paths', len(sp) >= 5, '%d paths' % len(sp))

    def str_match(filter_kind, topic, index, same):
        """topic: '' | 'a' | '$s'; same: whether the topic string equals the filter's string"""
        env = {'discr2': vidx[filter_kind], 'index': index, 'sys': topic.startswith('$'), 'empty': topic == '', 'eq': same}
        return eval_fn(sp, env)
    # expected 4.7 table for one level
    n = 0
    for fk in variants:
        for topic in ('', 'a', '$s'):
            for index in (0, 1):
                for same in (True, False):
                    if fk in ('Normal', 'System'):
                        want = same and (fk == 'Normal' or topic.startswith('$'))
                    elif fk == 'Blank':
                        want = topic == ''
                    else:
                        want = not (index == 0 and topic.startswith('$'))
                    got = str_match(fk, topic, index, same)
                    n += 1
                    R.ob('C18.match-table', 'str-impl|%s|topic=%r|index%s0|same=%s' % (fk, topic, '=' if index == 0 else '>', same), got == want,
                         'filter level %s vs topic level %r at index %d (strings equal: %s): implementation %s, MQTT 4.7 %s' % (fk, topic, index, same, got, want))
    R.counts['C18.match-table:str-impl cases'] = n
    # --- filter-vs-filter impl
    fb = F.body('topic::match_level_impl') or F.one(r'^<topic::TopicFilterLevel as topic::MatchLevel>::match_level$')   # (the helper may be folded into the impl it served)
    fp = [p for p in SymEx(fb, F, call_model=atom_model).run() if p.end[0] == 'return']
    R.ob('C18.match-table', 'filter-impl|paths', len(fp) >= 5, '%d paths' % len(fp))

    def filt_match(sub_kind, sup_kind, index, same):
        env = {'discr1': vidx[sub_kind], 'discr2': vidx[sup_kind], 'index': index, 'eq': same, 'sys': False, 'empty': False}
        return eval_fn(fp, env)
    # monotonicity: sub covered by sup at i  =>  every topic level matched by sub at i is matched by sup at i
    m = 0
    for subk in variants:
        for supk in variants:
            for index in (0, 1):
                for same in (True, False):
                    cov = filt_match(subk, supk, index, same)
                    if cov is None:
                        R.ob('C18.match-table', 'filter-impl|%s<=%s|evaluable' % (subk, supk), False, 'could not evaluate the extracted table')
                        continue
                    if not cov:
                        continue
                    # topic levels t; the strings: sub's string is 'a' ('$s' for System), sup's string equals it iff same
                    for topic in ('', 'a', 'b', '$s', '$t'):
                        sub_str = '$s' if subk == 'System' else 'a'
                        sup_str = sub_str if same else ('$t' if supk == 'System' else 'b')
                        t_sub = str_match(subk, topic, index, topic == sub_str)
                        t_sup = str_match(supk, topic, index, topic == sup_str)
                        m += 1
                        if t_sub and not t_sup:
                            R.ob('C18.match-table', 'filter-impl|covers(%s<=%s,index%s0,same=%s)|monotone' % (subk, supk, '=' if index == 0 else '>', same), False,
                                 'matches_filter reports filter level %s covered by %s at index %d, but topic level %r is matched by the former and not by the latter' % (subk, supk, index, topic))
    R.ob('C18.match-table', 'filter-impl|monotone-wrt-string-relation', True, '%d (cover, topic) combinations examined' % m)
    R.counts['C18.match-table:monotonicity combinations'] = m
    # --- match_topic end-of-input rules
    mt = F.one(r'^topic::match_topic$')
    ok_multi = False
    for swb, place, adt, ty, t in discr_switches(mt, ty_pat=r'Option<&topic::TopicFilterLevel>'):
        pass
    rets = [(bi, j, s) for bi, j, s in mt.assigns() if s['lhs']['l'] == 0 and s['rv']['k'] == 'use' and const_val(s['rv']['op']) is not None]
    R.ob('C18.match-table', 'match_topic|has-true-and-false-exits', {const_val(s['rv']['op']) for _, _, s in rets} >= {0, 1}, 'constant results: %s' % sorted({const_val(s['rv']['op']) for _, _, s in rets}))
    # after the loop: next() == Some(MultiWildcard) | None => true ; Some(other) => false
    nexts = [(bi, t) for bi, t in mt.calls_to(r'as std::iter::Iterator>::next$')]
    R.ob('C18.match-table', 'match_topic|next()-sites', len(nexts) >= 2, 'found %d iterator next() calls' % len(nexts))
    tail = None
    for bi, t in nexts:
        if 'TopicFilterLevel' in mt.local_ty(t['dest']['l']) and bi not in mt.reachable_after(bi):
            tail = bi
    ok_tail = False
    if tail is not None:
        r = discr_switch_after_call(mt, tail)
        if r:
            sb_, tg, oth = r
            none_t = tg.get(0, oth)
            some_t = tg.get(1, oth)
            none_reg = mt.reachable(none_t, avoid=[some_t])
            t_true = any(bi in none_reg and const_val(s['rv']['op']) == 1 for bi, j, s in rets)
            # Some(level): discriminant(level)==MultiWildcard -> true else false
            t_mw = False
            t_other_false = False
            for swb, place, adt, ty, tt in discr_switches(mt, adt=LEVEL):
                if swb not in mt.reachable(some_t, avoid=[none_t]) and swb != some_t:
                    continue
                outcome = {}
                tg2 = {v: tb for v, tb in tt['targets']}
                for i, var in enumerate(F.adts[LEVEL]['variants']):
                    tgt = tg2.get(i, tt['otherwise'])
                    others = {x for x in list(tg2.values()) + [tt['otherwise']] if x != tgt}
                    reg_ = mt.reachable(tgt, avoid=others)
                    vals = {const_val(s['rv']['op']) for bi, j, s in rets if bi in reg_}
                    outcome[var['name']] = vals
                t_mw = outcome.get('MultiWildcard') == {1}
                t_other_false = all(v == {0} for k, v in outcome.items() if k != 'MultiWildcard')
                R.table('match_topic: filter level left when the topic is exhausted -> result', {k: sorted(v) for k, v in outcome.items()})
            ok_tail = t_true and t_mw and t_other_false
    # (decided semantically by the `step(topic exhausted, ..)` cases of match_loop; the shape found here is kept as a table only)
    R.note('match_topic tail shape recognised: %s' % ok_tail)


def _strip_refs(v):
    while v and v[0] in ('ref', 'deref'):
        v = v[1]
    return v


def _root_call(v):
    """(callee name, projection list) of the call a place term is rooted in, or (None, None)"""
    proj = []
    while v:
        if v[0] in ('ref', 'deref'):
            v = v[1]
        elif v[0] == 'field':
            proj.append(v[2])
            v = v[1]
        elif v[0] == 'downcast':
            proj.append(v[2])
            v = v[1]
        elif v[0] == 'call':
            return v[1], list(reversed(proj))
        else:
            return None, None
    return None, None


def match_loop(F, R):
    """One iteration of match_topic's loop as a table: (topic has a next level, filter's next level kind,
    result m of MatchLevel::match_level(topic level, that filter level, index)) -> continue | true | false.
    Expected (4.7): filter exhausted -> false; `#` -> m (and stop); any other level -> continue iff m."""
    mt = F.one(r'^topic::match_topic$')
    variants = level_variants(F)
    vidx = {n: i for i, n in enumerate(variants)}
    paths = [p for p in SymEx(mt, F, loop_visits=0).run() if p.end[0] in ('return', 'loop')]
    R.ob('C18.match-table', 'match_topic|one-iteration paths', len(paths) >= 6, '%d paths through one iteration' % len(paths))

    def is_enum_next(n):
        return n is not None and re.search(r'Enumerate<.*Iterator>::next$', n) is not None

    def is_slice_next(n):
        return n is not None and re.search(r'slice::Iter<.*Iterator>::next$', n) is not None

    def classify(t):
        if t[0] == 'discr':
            n, proj = _root_call(t[1])
            if is_enum_next(n) and not proj:
                return ('topic_next',)
            if is_slice_next(n) and not proj:
                return ('filt_next',)
            if is_slice_next(n) and proj == ['Some', '0']:
                return ('kind',)
        if t[0] == 'call' and t[1].endswith('MatchLevel::match_level') and len(t[2]) == 3:
            a0, a1, a2 = t[2]
            n0, p0 = _root_call(a0)
            n2, p2 = _root_call(a2)
            ok_item = is_enum_next(n0) and p0 == ['Some', '0', '1']
            ok_idx = is_enum_next(n2) and p2 == ['Some', '0', '0']
            lv = _strip_refs(a1)
            if lv[0] == 'agg' and lv[1] == LEVEL and not lv[3]:
                which = lv[2]
            else:
                n1, p1 = _root_call(a1)
                which = 'self' if is_slice_next(n1) and p1 == ['Some', '0'] else '?'
            return ('m', which, ok_item, ok_idx)
        return None

    problems = []

    def m_value(cl, env):
        _, which, ok_item, ok_idx = cl
        if not ok_item or not ok_idx:
            problems.append('match_level is not given the current topic level and its index')
            return None
        if which == 'self' or which == env['kind']:
            return env['m']
        problems.append('filter level %s is compared through match_level(.., %s, ..)' % (env['kind'], which))
        return None

    def outcome(env):
        res = set()
        for p in paths:
            ok = True
            for t, c in p.conds:
                cl = classify(t)
                if cl is None:
                    ok = None
                    break
                if cl[0] == 'topic_next':
                    v = env['tn']
                elif cl[0] == 'filt_next':
                    v = 0 if env['kind'] is None else 1
                elif cl[0] == 'kind':
                    if env['kind'] is None:
                        ok = False
                        break
                    v = vidx[env['kind']]
                else:
                    v = m_value(cl, env)
                    if v is None:
                        ok = None
                        break
                if (c[0] == 'eq' and v != c[1]) or (c[0] == 'ne' and v in c[1]):
                    ok = False
                    break
            if ok is None:
                res.add('unevaluable')
            elif ok:
                if p.end[0] == 'loop':
                    res.add('continue')
                elif p.ret and p.ret[0] == 'const':
                    res.add(bool(p.ret[1]))
                else:
                    cl = classify(p.ret) if p.ret else None
                    v = m_value(cl, env) if cl and cl[0] == 'm' else None
                    res.add('unevaluable' if v is None else bool(v))
        return res
    n = 0
    for tn in (0, 1):
        for kind in [None] + variants:
            for m in (0, 1):
                env = {'tn': tn, 'kind': kind, 'm': m}
                if tn == 0:
                    want = kind in (None, 'MultiWildcard')
                elif kind is None:
                    want = False
                elif kind == 'MultiWildcard':
                    want = bool(m)
                else:
                    want = 'continue' if m else False
                del problems[:]
                got = outcome(env)
                n += 1
                R.ob('C18.match-table', 'match_topic|step(topic %s, filter %s, level-match=%d)' % ('has level' if tn else 'exhausted', kind or 'exhausted', m),
                     got == {want}, 'one step of match_topic yields %s, MQTT 4.7 requires %s%s' % (sorted(map(str, got)), want, ('; ' + '; '.join(sorted(set(problems)))) if problems else ''), mt.loc(0))
    R.floor('C18.match-table', 'match_topic step cases', n, 24)


def parse_table(F, R):
    """TryFrom<ByteString> for TopicFilter: the per-level classifier (the body under try_from that builds
    TopicFilterLevel values) is extracted by path enumeration and evaluated for sample level texts and
    positions: "+" -> SingleWildcard, "#" -> MultiWildcard, "" -> Blank, text containing a wildcard character ->
    Err, "$.." at position 0 -> System, everything else (also "$.." later) -> Normal; the text stored in the
    level is the level's own text. The result then passes TopicFilter::is_valid (false -> Err)."""
    root = F.one(r'^<topic::TopicFilter as std::convert::TryFrom<ntex_bytes::ByteString>>::try_from$')
    cands = [root] + F.find(r'^<topic::TopicFilter as std::convert::TryFrom<ntex_bytes::ByteString>>::try_from::\{closure#\d+\}$')
    cls = None
    for b in cands:
        kinds = {s['rv']['variant'] for bi, j, s in b.assigns() if s['rv']['k'] == 'agg' and s['rv'].get('adt') == LEVEL}
        if len(kinds) >= 3:
            cls = b
    if not R.ob('C18.parse-table', 'classifier-found', cls is not None, 'no body under TryFrom<ByteString>::try_from builds TopicFilterLevel values: anchor lost'):
        return
    paths = [p for p in SymEx(cls, F, loop_visits=0).run() if p.end[0] == 'return']

    def unq(c):
        if c[0] == 'constx' and isinstance(c[1], str) and len(c[1]) >= 2 and c[1][0] == '"':
            return json.loads(c[1])
        return None

    class Unev(Exception):
        pass

    def ev(t, env):
        k = t[0]
        if k == 'const':
            return t[1]
        if k == 'call':
            base = t[1]
            # a test on the whole input (`value.is_empty()`), not on one level of it
            if t[2] and term_has(t[2][0], 'Deref>::deref') and not term_has(t[2][0], 'split') and not term_has(t[2][0], 'next'):
                raise Unev(term_str_v(t))
            mm = re.search(r'PartialEq.*::(eq|ne)$', base)
            if mm and len(t[2]) == 2:
                a0, a1 = _strip_refs(t[2][0]), _strip_refs(t[2][1])
                lit = unq(a1) if unq(a1) is not None else unq(a0)
                if lit is None:
                    raise Unev(term_str_v(t))
                return int((env['text'] == lit) == (mm.group(1) == 'eq'))
            if base.endswith('<impl str>::contains'):
                pat = t[2][1]
                chars = []
                if pat[0] == 'array':
                    chars = [chr(x[1]) for x in pat[1] if x[0] == 'const']
                elif pat[0] == 'const':
                    chars = [chr(pat[1])]
                elif unq(pat) is not None:
                    return int(unq(pat) in env['text'])
                else:
                    raise Unev(term_str_v(t))
                return int(any(c in env['text'] for c in chars))
            if base.endswith('topic::is_system'):
                return int(env['text'].startswith('$'))
            if base.endswith('<impl str>::starts_with'):
                pat = t[2][1]
                if pat[0] == 'const':
                    return int(env['text'].startswith(chr(pat[1])))
                if unq(pat) is not None:
                    return int(env['text'].startswith(unq(pat)))
            if base.endswith('<impl str>::is_empty'):
                return int(env['text'] == '')
            raise Unev(term_str_v(t))
        if k == 'bin':
            a, b_ = t[2], t[3]
            x = ev(a, env) if a[0] in ('const', 'bin', 'un', 'call') else env['idx']
            y = ev(b_, env) if b_[0] in ('const', 'bin', 'un', 'call') else env['idx']
            r = {'Eq': x == y, 'Ne': x != y, 'Lt': x < y, 'Le': x <= y, 'Gt': x > y, 'Ge': x >= y, 'BitAnd': x & y, 'BitOr': x | y}.get(t[1])
            if r is None:
                raise Unev(term_str_v(t))
            return int(r)
        if k == 'un' and t[1] == 'Not':
            return int(not ev(t[2], env))
        if k in ('field', 'arg', 'deref', 'ref'):
            return env['idx']
        raise Unev(term_str_v(t))

    closure_form = cls is not root
    if not closure_form:
        # loop form: the classifier is part of try_from itself (or a helper spliced into it); a path classifies a level when
        # it builds a TopicFilterLevel or the InvalidLevel error; conditions about other things (iterator state, the whole
        # input being empty, the final structural validation) are not conditions on the level and are ignored
        paths = [p for p in SymEx(cls, F, loop_visits=0).run() if p.end[0] in ('return', 'loop')]

    def built_on(p):
        res = None
        for bi in p.blocks:
            for st in cls.blocks[bi]['stmts']:
                if st['k'] == 'assign' and st['rv']['k'] == 'agg' and st['rv'].get('agg') == 'adt':
                    if st['rv'].get('adt') == LEVEL:
                        res = st['rv']['variant']
                    elif st['rv'].get('adt') == 'topic::TopicFilterError' and st['rv'].get('variant') == 'InvalidLevel':
                        res = 'Err'
        return res

    def classify(env):
        out = set()
        for p in paths:
            ok = True
            for t, c in p.conds:
                try:
                    v = ev(t, env)
                except Unev:
                    if closure_form:
                        raise
                    continue
                if (c[0] == 'eq' and v != c[1]) or (c[0] == 'ne' and v in c[1]):
                    ok = False
                    break
            if not ok:
                continue
            if not closure_form:
                b_ = built_on(p)
                if b_ is not None:
                    out.add(b_)
                continue
            r = p.ret
            if r and r[0] == 'agg' and r[2] == 'Err':
                out.add('Err')
            elif r and r[0] == 'agg' and r[2] == 'Ok' and r[3].get('0', ('?',))[0] == 'agg' and r[3]['0'][1] == LEVEL:
                lv = r[3]['0']
                own_text = True
                if lv[3]:
                    # the stored text must be derived from the level's own text (2nd closure parameter component)
                    own_text = term_has(lv[3].get('0'), 'recover_bstr') or lv[3].get('0', ('?',))[0] in ('field', 'arg', 'call')
                    own_text = own_text and freeze_has_level_text(lv[3].get('0'))
                out.add(lv[2] + ('' if own_text else '(foreign text)'))
            else:
                out.add('?' + (term_str_v(r)[:60] if r else 'None'))
        return out

    def freeze_has_level_text(t):
        # the text operand mentions the classifier's own parameter (arg2 / its .1 component) - not a constant
        st = [t]
        while st:
            x = st.pop()
            if isinstance(x, tuple):
                if x and x[0] == 'arg' and x[1] == 2:
                    return True
                st.extend(x)
        return False
    samples = ['+', '#', '', 'a', 'ab', '$s', '$', 'a+', '+a', 'a#', '#a', '$+', '$#', '++', '##', '+#', ' ']
    n = 0
    for text in samples:
        for idx in (0, 1, 2):
            if text == '+':
                want = 'SingleWildcard'
            elif text == '#':
                want = 'MultiWildcard'
            elif text == '':
                want = 'Blank'
            elif '+' in text or '#' in text:
                want = 'Err'
            elif idx == 0 and text.startswith('$'):
                want = 'System'
            else:
                want = 'Normal'
            try:
                got = classify({'text': text, 'idx': idx})
            except Unev as e:
                R.ob('C18.parse-table', 'classifier|evaluable', False, 'cannot interpret the classifier condition %s: unsupported idiom (anchor lost)' % e, cls.loc(0))
                return
            n += 1
            R.ob('C18.parse-table', 'level(%r at %s)' % (text, 'index 0' if idx == 0 else 'index>0' if idx == 1 else 'index>1'), got == {want},
                 'the parser classifies level text %r at position %d as %s, MQTT 4.7 / the string validator require %s' % (text, idx, sorted(got), want), cls.loc(0))
    R.floor('C18.parse-table', 'classifier cases', n, 51)
    # a second place that builds levels without going through the splitter (a "single level" shortcut in try_from itself while
    # the per-level classifier is a closure): it sees the whole input as the level at position 0 and must classify it the same way
    if cls is not root:
        rp = [p for p in SymEx(root, F, loop_visits=0).run() if p.end[0] == 'return']
        def built_root(p):
            res = None
            for bi in p.blocks:
                for st in root.blocks[bi]['stmts']:
                    if st['k'] == 'assign' and st['rv']['k'] == 'agg' and st['rv'].get('agg') == 'adt':
                        if st['rv'].get('adt') == LEVEL:
                            res = st['rv']['variant']
                        elif st['rv'].get('adt') == 'topic::TopicFilterError' and st['rv'].get('variant') == 'InvalidLevel':
                            res = 'Err'
            return res
        short = [p for p in rp if built_root(p) is not None and not any(re.search(r'<impl str>::split$', nm_) for nm_, a_, b_ in p.calls)]
        if short:
            def ev2(t, env):
                # tests on the whole input ARE tests on the level here
                k = t[0]
                if k == 'const':
                    return t[1]
                if k == 'un' and t[1] == 'Not':
                    return int(not ev2(t[2], env))
                if k == 'call':
                    base = t[1]
                    mm = re.search(r'PartialEq.*::(eq|ne)$', base)
                    if mm and len(t[2]) == 2:
                        lit = unq(_strip_refs(t[2][1])) if unq(_strip_refs(t[2][1])) is not None else unq(_strip_refs(t[2][0]))
                        if lit is None:
                            raise Unev(term_str_v(t))
                        return int((env['text'] == lit) == (mm.group(1) == 'eq'))
                    if base.endswith('<impl str>::contains'):
                        pat = t[2][1]
                        if pat[0] == 'array':
                            return int(any(chr(x[1]) in env['text'] for x in pat[1] if x[0] == 'const'))
                        if pat[0] == 'const':
                            return int(chr(pat[1]) in env['text'])
                        if unq(pat) is not None:
                            return int(unq(pat) in env['text'])
                    if base.endswith('topic::is_system'):
                        return int(env['text'].startswith('$'))
                    if base.endswith('<impl str>::is_empty') or base.endswith('::is_empty'):
                        return int(env['text'] == '')
                    if base.endswith('<impl str>::starts_with') and t[2][1][0] == 'const':
                        return int(env['text'].startswith(chr(t[2][1][1])))
                raise Unev(term_str_v(t))
            m2 = 0
            for text in [x for x in samples if '/' not in x and x != '']:
                want = 'SingleWildcard' if text == '+' else 'MultiWildcard' if text == '#' else 'Err' if ('+' in text or '#' in text) else 'System' if text.startswith('$') else 'Normal'
                got = set()
                for p in short:
                    ok = True
                    for t, c in p.conds:
                        try:
                            v = ev2(t, {'text': text})
                        except Unev:
                            continue
                        if (c[0] == 'eq' and v != c[1]) or (c[0] == 'ne' and v in c[1]):
                            ok = False
                            break
                    if ok:
                        got.add(built_root(p))
                m2 += 1
                if got:
                    R.ob('C18.parse-table', 'single-level shortcut|level(%r)' % text, got == {want},
                         'a shortcut of the parser that does not split the input classifies the one-level filter %r as %s; the per-level classifier (and 4.7) require %s' % (text, sorted(got), want), root.loc(0))
            R.counts['C18.parse-table:shortcut cases'] = m2
    # the text entry point (`"..".parse::<TopicFilter>()`) hands its argument to the same parser unchanged: every character of a
    # filter is significant (4.7.3), so nothing but the &str -> ByteString conversion may sit between the two
    fs = F.find(r'^<topic::TopicFilter as std::str::FromStr>::from_str$')
    for fb in fs:
        for bi, t in fb.calls_to(r'TryFrom<ntex_bytes::ByteString>>::try_from$|topic::TopicFilter as std::convert::TryFrom'):
            og = Origin(fb).of_operand(t['args'][0])
            extra = sorted({(l[1] or '').split('::')[-1] for l in og if l[0] == 'call' and not re.search(r'::(into|from|to_owned|to_string|clone|as_ref|borrow|deref)$', l[1] or '')})
            R.ob('C18.parse-table', 'from_str|argument-parsed-verbatim', not extra and any(l[0] == 'arg' and l[1] == 1 for l in og),
                 'FromStr edits the text before parsing it (%s): filters that differ in those characters are conflated, and parse / Display no longer round-trip' % ', '.join(extra), fb.loc(bi))
    R.floor('C18.parse-table', 'FromStr entry point', len(fs), 1)
    # wiring of the whole conversion: empty input refused, levels are the '/'-separated pieces numbered from 0, structural validation last
    calls = {bi: callee_name(t) or '' for bi, t in root.calls()}
    split = [(bi, t) for bi, t in root.calls() if re.search(r'<impl str>::split$', callee_name(t) or '')]
    sep_ok = False
    for bi, t in split:
        c = op_const(t['args'][1]) if len(t['args']) > 1 else None
        if c and c.get('v') == ord('/'):
            sep_ok = True
    R.ob('C18.parse-table', 'try_from|levels-are-split-at-/', sep_ok, 'TryFrom<ByteString> does not split the filter at the level separator `/`', root.loc(0))
    subs = [root] + [b for b in cands if b is not root]
    isv = [(b, bi) for b in subs for bi, t in b.calls_to(r'^topic::TopicFilter::is_valid$')]
    ok_v = False
    for b, bi in isv:
        for p in SymEx(b, F, loop_visits=0).run():
            for t, c in p.conds:
                if t[0] == 'call' and t[1].endswith('TopicFilter::is_valid') and c == ('eq', 0) and p.ret and p.ret[0] == 'agg' and p.ret[2] == 'Err':
                    ok_v = True
    R.ob('C18.parse-table', 'try_from|structural-validation-decides', ok_v, 'a parsed filter that fails TopicFilter::is_valid is not turned into an error', root.loc(0))
    empties = [bi for bi, t in root.calls() if re.search(r'::is_empty$', callee_name(t) or '')]
    ok_e = False
    for p in SymEx(root, F, loop_visits=0).run():
        for t, c in p.conds:
            if t[0] == 'call' and t[1].endswith('is_empty') and c[0] == 'ne' and p.ret and p.ret[0] == 'agg' and p.ret[2] == 'Err' and not any('split' in n for n, a, bi in p.calls):
                ok_e = True
    R.ob('C18.parse-table', 'try_from|empty-filter-refused', ok_e, 'the empty string is not refused before parsing (4.7.3: at least one character)', root.loc(0))
    enum_before_map = False
    order = [callee_name(t) or '' for bi, t in sorted(root.calls())]
    names = [o.split('::')[-1] for o in order]
    if 'enumerate' in names and 'split' in names:
        enum_before_map = names.index('split') < names.index('enumerate') and ('map' not in names or names.index('enumerate') < names.index('map'))
        # nothing that renumbers or drops pieces between split and enumerate
        between = names[names.index('split') + 1:names.index('enumerate')]
        enum_before_map = enum_before_map and not [x for x in between if x in ('skip', 'filter', 'rev', 'skip_while', 'step_by', 'take', 'filter_map')]
    R.ob('C18.parse-table', 'try_from|index-counts-levels-from-0', enum_before_map, 'the position handed to the classifier is not the index of the `/`-separated level (enumerate directly over split)', root.loc(0))


def display_table(F, R):
    """Display for TopicFilterLevel as a table (variant -> what is written) - the inverse of the parser's
    classifier: Normal/System write their own text once, Blank nothing, the wildcards their character;
    Display for TopicFilter writes levels through that impl and no separator other than `/`."""
    b = F.one(r'^<topic::TopicFilterLevel as std::fmt::Display>::fmt$')
    variants = level_variants(F)
    paths = [p for p in SymEx(b, F, loop_visits=0).run() if p.end[0] == 'return']
    want = {'Normal': 'own-text', 'System': 'own-text', 'Blank': '', 'SingleWildcard': '+', 'MultiWildcard': '#'}
    seen = {}
    for p in paths:
        k = None
        for t, c in p.conds:
            if t[0] == 'discr' and c[0] == 'eq':
                k = variants[c[1]] if c[1] < len(variants) else None
        if k is None:
            continue
        out = []
        for n, args, bi in p.calls:
            base = n.split('::')[-1]
            if base == 'write_char' and len(args) == 2 and args[1][0] == 'const':
                out.append(chr(args[1][1]))
            elif base == 'write_str' and len(args) == 2:
                a = args[1]
                own = term_has(a, k) and not term_has(a, 'constx')
                out.append('own-text' if own else 'other-text')
            elif base in ('write_fmt', 'pad', 'write'):
                out.append('formatted')
        seen.setdefault(k, set()).add(''.join(out) if all(len(x) == 1 for x in out) else '|'.join(out))
    for k in variants:
        R.ob('C18.display', 'level|%s' % k, seen.get(k) == {want.get(k)},
             'Display writes %s for a %s level, the parser needs %r to read the same level back' % (sorted(seen.get(k, [])), k, want.get(k)), b.loc(0))
    R.counts['C18.display:level variants'] = len(seen)
    tb = F.one(r'^<topic::TopicFilter as std::fmt::Display>::fmt$')
    chars = set()
    for bi, t in tb.calls():
        n = callee_name(t) or ''
        if n.endswith('write_char'):
            c = op_const(t['args'][1])
            if c and 'v' in c:
                chars.add(chr(c['v']))
        if n.endswith('write_str'):
            chars.add('<str>')
    lv = list(tb.calls_to(r"^<topic::TopicFilterLevel as std::fmt::Display>::fmt$"))
    # the decision to write a separator depends on the position only (iterator state, index, length of the level
    # list), never on text (what was written so far, or the level's content): an empty level writes nothing, so a
    # content test cannot tell "first level" from "after an empty level"
    fam = [tb] + [x for x in F.find(r'^<topic::TopicFilter as std::fmt::Display>::fmt::\{closure') ]
    sep_sites = 0
    for fb in fam:
        org = Origin(fb)
        for bi, t in fb.calls():
            n = callee_name(t) or ''
            if not re.search(r'::(write_char|push|write_str|push_str)$', n) or len(t['args']) < 2:
                continue
            c = op_const(t['args'][1])
            is_sep = bool(c) and (c.get('v') == 47 or c.get('s') in ('"/"',) or c.get('def') in ('"/"',))
            if not is_sep:
                continue
            sep_sites += 1
            if re.search(r'::(push|push_str)$', n):
                chars.add('/')
            bad = set()
            for sb in range(len(fb.blocks)):
                tt = fb.blocks[sb]['term']
                if tt['k'] != 'switch' or sb not in fb.live or not fb.dominates(sb, bi):
                    continue
                succs = {x for _, x in tt['targets']} | {tt['otherwise']}
                reach = [x for x in succs if bi in fb.reachable(x, avoid=[sb]) or x == bi]
                if len(reach) == len(succs):
                    continue
                for lf in org.of_operand(tt['discr']):
                    if lf[0] == 'call' and re.search(r'(string::String|<impl str>|ByteString|fmt::Formatter)', lf[1]) and re.search(r'::(is_empty|len|ends_with|starts_with|width|capacity|chars|as_bytes|last|bytes)$', lf[1]):
                        bad.add(lf[1])
            R.ob('C18.display', 'filter|separator-decided-by-position|%s' % n.split('::')[-1], not bad,
                 'whether `/` is written depends on text (%s): an empty level writes nothing, so leading or repeated separators are lost and parse(display(f)) != f' % sorted(bad), fb.loc(bi))
    R.ob('C18.display', 'filter|separator-written', sep_sites >= 1, 'no write of the level separator `/` found in Display for TopicFilter', tb.loc(0))
    chars.discard('<str>') if sep_sites and chars - {'<str>'} == {'/'} else None
    R.ob('C18.display', 'filter|separator-is-/', chars == {'/'}, 'Display for TopicFilter writes %s between/around levels, the parser splits at `/` only' % sorted(chars), tb.loc(0))
    for fb in fam:
        for bi, t in fb.calls():
            c = op_const(t['func']) or {}
            if (callee_name(t) or '').endswith('new_display') and any('TopicFilterLevel' in a for a in c.get('args', [])):
                lv.append((bi, t))
            if re.search(r'ToString>?::to_string$', callee_name(t) or '') and any('TopicFilterLevel' in a for a in c.get('args', [])):
                lv.append((bi, t))
    R.ob('C18.display', 'filter|levels-through-level-impl', len(lv) >= 1, 'Display for TopicFilter does not write the levels through Display for TopicFilterLevel', tb.loc(0))


def param_use(F, R):
    b = F.body('topic::match_level_impl') or F.one(r'^<topic::TopicFilterLevel as topic::MatchLevel>::match_level$')
    for argn, name in ((1, 'subset_level'), (2, 'superset_level'), (3, 'index')):
        used = False
        for bi, j, s in b.stmts():
            if s['k'] != 'assign':
                continue
            rv = s['rv']
            ops = [rv.get('op'), rv.get('a'), rv.get('b')] + rv.get('fields', [])
            for o in ops:
                p = op_place(o)
                if p and p['l'] == argn:
                    used = True
            if rv.get('place') and rv['place']['l'] == argn:
                used = True
        for bi, t in b.calls():
            for a in t['args']:
                p = op_place(a)
                if p and p['l'] == argn:
                    used = True
        R.ob('C18.param-use', 'match_level_impl|%s-used' % name, used,
             'parameter `%s` of the filter-vs-filter level relation never influences the result: the "$"-rule at index 0 cannot be honoured' % name)


def level_validity(F, R):
    """TopicFilterLevel::is_valid: every variant that carries text (Normal, System) refuses the wildcard
    characters; extracted per variant from the match."""
    b = F.one(r'^topic::TopicFilterLevel::is_valid$')
    adt = F.adts[LEVEL]
    ve = variant_edges(F, b, LEVEL)
    texty = [v['name'] for v in adt['variants'] if v.get('fields')]
    R.floor('C18.match-table', 'TopicFilterLevel variants with text', len(texty), 2)
    conts = [(bi, t) for bi, t in b.calls() if re.search(r'::contains$', callee_name(t) or '')]
    for v in texty:
        edges = ve.get(v, [])
        reg = arm_region(b, edges) if edges else set()
        # blocks reachable from this variant's edge
        reach = set()
        for e in edges:
            reach |= b.reachable(e[1])
        hit = [(bi, t) for bi, t in conts if bi in reach]
        chars = set()
        for bi, t in hit:
            for a in t['args'][1:]:
                c = op_const(a)
                sv = json.dumps(c) if c else ''
                for ch in ('+', '#'):
                    if ("'%s'" % ch) in sv or ('"%s"' % ch) in sv or ('%d' % ord(ch)) in sv:
                        chars.add(ch)
                p_ = op_place(a)
                if p_:
                    for d_ in b.whole_defs(p_['l']):
                        if d_[2] == 'assign':
                            sv = json.dumps(d_[3]['rv'])
                            for ch in ('+', '#'):
                                if ('%d' % ord(ch)) in sv or ("'%s'" % ch) in sv:
                                    chars.add(ch)
        # the result on that path is the negation of contains: a path from the variant edge to `true` constant without passing contains is a hole
        true_sites = [bi for bi, j, s in b.assigns() if s['lhs']['l'] == 0 and s['rv']['k'] == 'use' and const_val(s['rv']['op']) == 1]
        skip = [x for x in true_sites if any(x in b.reachable(e[1], avoid=[h for h, _ in conts]) for e in edges)]
        R.ob('C18.match-table', 'TopicFilterLevel::is_valid|%s|wildcard-characters-refused' % v, bool(edges) and bool(hit) and not skip and chars >= {'+', '#'},
             'a %s level containing + or # is accepted by the level validator although the string validator refuses it (chars tested: %s)' % (v, sorted(chars)), b.loc(0))


def run(F, R):
    level_validity(F, R)
    valid_dfa(F, R)
    match_tables(F, R)
    is_system_rule(F, R)
    constructed_only_validated(F, R)
    match_loop(F, R)
    matchers_share_the_loop(F, R)
    parse_table(F, R)
    display_table(F, R)
    param_use(F, R)
