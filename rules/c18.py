"""C18 (structural part): valid-dfa: topic::is_valid is a byte automaton; its transition table
(PrevState x byte class -> next state | reject) is extracted from MIR and proved EQUIVALENT, by product
construction over all strings, to the MQTT 4.7.1 validity automaton in spec/topic_filter_dfa.json; the
SUBSCRIBE/UNSUBSCRIBE arms run is_valid over every filter and map false to Subs_4_7_1.
match-table: the case tables of the three MatchLevel implementations are extracted (filter level kind
x topic level kind x index==0 x is-system) and compared with 4.7; end-of-input rules of match_topic;
the filter-vs-filter relation must be monotone w.r.t. the string relation (whenever sub is covered by
sup at index i, every topic level matched by sub at i is matched by sup at i). param-use: every
parameter of match_level_impl influences the result. Parser/validator agreement and Display round
trips are not decided."""
import json, os
from facts import *
from disp import *
from symex import SymEx, term_str_v, term_has

VERIF = os.path.dirname(os.path.dirname(os.path.abspath(__file__)))
LEVEL = 'topic::TopicFilterLevel'


def extract_valid_dfa(F, R):
    b = F.one(r'^topic::is_valid$')
    ps = 'topic::is_valid::PrevState'
    if ps not in F.adts:
        raise AnchorLost('PrevState enum of is_valid')
    states = [v['name'] for v in F.adts[ps]['variants']]
    # the iterator next() call and its Some edge
    nxt = [(bi, t) for bi, t in b.calls_to(r'as std::iter::Iterator>::next$')]
    if len(nxt) != 1:
        raise AnchorLost('is_valid: iterator next() (%d)' % len(nxt))
    nbi, nt = nxt[0]
    r = discr_switch_after_call(b, nbi)
    if not r:
        raise AnchorLost('is_valid: match on next()')
    sb, tg, oth = r
    some_t, none_t = tg.get(1, oth), tg.get(0, oth)
    # the state local: the one assigned PrevState aggregates and read through discriminant
    st_locals = {s['lhs']['l'] for bi, j, s in agg_sites(b, r'^%s$' % re.escape(ps)) if not place_proj(s['lhs'])}
    # the persistent one is the one assigned before the loop (dominates the next() call)
    persistent = [l for l in st_locals if any(x[0] in b.dom[nbi] for x in b.whole_defs(l))]
    if len(persistent) != 1:
        raise AnchorLost('is_valid: state variable')
    sl = persistent[0]
    init = [s['rv']['variant'] for bi, j, s in agg_sites(b, r'^%s$' % re.escape(ps)) if s['lhs']['l'] == sl and bi in b.dom[nbi]]
    byte_local = nt['dest']['l']
    table = {}
    classes = set()
    for s in states:
        se = SymEx(b, F, loop_visits=0, stop_at=lambda bi_: bi_ == nbi)
        env = {sl: ('agg', ps, s, {}), byte_local: ('agg', 'std::option::Option', 'Some', {'0': ('sym', 'byte')})}
        paths = se.run(start_block=some_t, init_env=env)
        for p in paths:
            # byte condition
            cond = None
            for t, c in p.conds:
                if term_has(t, 'byte'):
                    cond = c if cond is None else ('and', cond, c)
            if p.end[0] == 'return':
                res = 'REJECT' if (p.ret and p.ret[0] == 'const' and p.ret[1] == 0) else 'ACCEPT?'
            elif p.end[0] in ('loop', 'stop'):
                v = p.env.get(sl)
                res = v[2] if v and v[0] == 'agg' else '?'
            else:
                res = '?' + p.end[0]
            table.setdefault(s, []).append((cond, res))
            if cond and cond[0] == 'eq':
                classes.add(cond[1])
            if cond and cond[0] == 'ne':
                classes |= set(cond[1])
    # end-of-input: None edge -> return true
    se = SymEx(b, F, loop_visits=0)
    endp = se.run(start_block=none_t, init_env={sl: ('agg', ps, states[0], {})})
    accept_at_end = all(p.end[0] == 'return' and p.ret and p.ret[0] == 'const' and p.ret[1] == 1 for p in endp) and bool(endp)
    # empty string
    se = SymEx(b, F, loop_visits=0, call_model=lambda nm, args, t, path: ('const', 1, 'bool') if nm.endswith('str>::is_empty') else None)
    emp = se.run()
    empty_rejected = all(p.end[0] == 'return' and p.ret and p.ret[0] == 'const' and p.ret[1] == 0 for p in emp) and bool(emp)
    return states, init, table, sorted(classes), accept_at_end, empty_rejected


def dfa_next(table, state, byte):
    for cond, res in table.get(state, []):
        if cond is None:
            return res
        if cond_holds(cond, byte):
            return res
    return None


def cond_holds(cond, v):
    if cond[0] == 'eq':
        return v == cond[1]
    if cond[0] == 'ne':
        return v not in cond[1]
    if cond[0] == 'and':
        return cond_holds(cond[1], v) and cond_holds(cond[2], v)
    return False


def valid_dfa(F, R):
    states, init, table, classes, accept_at_end, empty_rejected = extract_valid_dfa(F, R)
    spec = json.load(open(os.path.join(VERIF, 'spec', 'topic_filter_dfa.json')))
    R.ob('C18.valid-dfa', 'is_valid|byte-classes', set(classes) == {0x2B, 0x23, 0x2F}, 'byte constants distinguished by is_valid: %s (expected + # /)' % [hex(c) for c in classes])
    R.ob('C18.valid-dfa', 'is_valid|empty-string-rejected', empty_rejected, 'the empty string must not be a valid filter')
    R.ob('C18.valid-dfa', 'is_valid|accepts-at-end-of-input', accept_at_end, 'reaching the end of the string without rejection must accept')
    R.ob('C18.valid-dfa', 'is_valid|initial-state', len(init) == 1, 'initial state candidates %s' % init)
    reps = {'+': 0x2B, '#': 0x23, '/': 0x2F, 'o': 0x61}
    # product construction: (impl state, spec state), all strings over the 4 classes
    start = (init[0] if init else None, spec['start'])
    seen = {start}
    work = [start]
    mism = None
    shown = {}
    while work and mism is None:
        a, s = work.pop()
        for cname, byte in reps.items():
            na = dfa_next(table, a, byte)
            ns = spec['delta'][s].get(cname, 'REJECT')
            shown['%s,%s' % (a, cname)] = na
            if na is None or (na == 'REJECT') != (ns == 'REJECT'):
                mism = (a, s, cname, na, ns)
                break
            if na != 'REJECT' and (na, ns) not in seen:
                seen.add((na, ns))
                work.append((na, ns))
    R.table('is_valid transition table (extracted)', shown)
    R.ob('C18.valid-dfa', 'is_valid|equivalent-to-spec-automaton', mism is None,
         'is_valid differs from the MQTT 4.7.1 validity automaton: in implementation state %s / spec state %s on %r the implementation goes to %s, the specification to %s' % (mism if mism else ('', '', '', '', '')))
    R.counts['C18.valid-dfa:product states explored'] = len(seen)
    # dispatcher arms use it
    for d in all_dispatchers(F):
        if d.role != 'server':
            continue
        for arm in ('Packet:Subscribe', 'Packet:Unsubscribe'):
            reg = d.arm(arm)
            b = d.call
            anys = [(bi, t) for bi, t in b.calls_to(r'as std::iter::Iterator>::any') if bi in reg]
            ok = False
            for bi, t in anys:
                # the closure passed to this `any` calls topic::is_valid
                og = Origin(b).of_operand(t['args'][1]) if len(t['args']) > 1 else set()
                defs = {l[1] for l in og if l[0] == 'agg'}
                cl = [x for x in F.descendants(b) if x.path in defs and any(True for _ in x.calls_to(r'^topic::is_valid$'))]
                r = call_bool_branch(b, bi)
                if cl and r and r[0] != 'discr':
                    treg = b.reachable(r[1], avoid=[r[2]])
                    ok = any(s['rv']['variant'] == 'Subs_4_7_1' for xb, j, s in agg_sites(b, r'^error::SpecViolation$') if xb in treg)
                    hs = [xb for xb, xt in d.call_sites(b, r'Inner::<C>::control|Inner::<C>::control_pkt') if xb in treg]
                    ok = ok and not hs
            R.ob('C18.valid-dfa', '%s|%s|invalid-filter=>Subs_4_7_1' % (d.name, arm), ok, 'the arm must validate every topic filter with topic::is_valid and end in SpecViolation::Subs_4_7_1 without reaching the handler')


def fieldless_variant(v):
    while v and v[0] in ('ref', 'deref'):
        v = v[1]
    if v and v[0] == 'agg' and v[1] == LEVEL and not v[3]:
        return v[2]
    return None


_VIDX = {}


def atom_model(nm, args, t, path):
    base = nm.split('::')[-1]
    if base in ('eq', 'ne') and len(args) == 2:
        for a, o in ((args[0], args[1]), (args[1], args[0])):
            fv = fieldless_variant(a)
            if fv is not None and fv in _VIDX:
                x = o
                while x[0] == 'ref':
                    x = x[1]
                cmp_ = ('bin', 'Eq', ('discr', x), ('const', _VIDX[fv], 'isize'))
                return cmp_ if base == 'eq' else ('un', 'Not', cmp_)
    if nm.endswith('topic::is_system'):
        return ('atom', 'sys')
    if base == 'is_empty':
        return ('atom', 'empty')
    if base in ('eq',) and 'PartialEq' in nm:
        return ('atom', 'eq')
    if base in ('ne',) and 'PartialEq' in nm:
        return ('un', 'Not', ('atom', 'eq'))
    return None


def ev_bool(t, env):
    k = t[0]
    if k == 'const':
        return bool(t[1])
    if k == 'atom':
        return env[t[1]]
    if k == 'un' and t[1] == 'Not':
        return not ev_bool(t[2], env)
    if k == 'bin':
        if t[1] == 'Eq':
            return ev_val(t[2], env) == ev_val(t[3], env)
        if t[1] == 'Ne':
            return ev_val(t[2], env) != ev_val(t[3], env)
        if t[1] == 'BitAnd':
            return ev_bool(t[2], env) and ev_bool(t[3], env)
        if t[1] == 'BitOr':
            return ev_bool(t[2], env) or ev_bool(t[3], env)
    raise ValueError('cannot evaluate %s' % term_str_v(t))


def ev_val(t, env):
    if t[0] == 'const':
        return t[1]
    if t[0] == 'arg' and t[1] == 3:
        return env['index']
    if t[0] == 'discr':
        inner = t[1]
        while inner[0] in ('deref', 'ref'):
            inner = inner[1]
        if inner[0] == 'arg':
            return env['discr%d' % inner[1]]
    if t[0] in ('bin', 'un', 'atom'):
        return int(ev_bool(t, env))
    raise ValueError('value %s' % term_str_v(t))


def path_matches(p, env):
    for t, c in p.conds:
        if t[0] == 'atom':
            v = int(env[t[1]])
        elif t[0] == 'un' and t[1] == 'Not' and t[2][0] == 'atom':
            v = int(not env[t[2][1]])
        else:
            try:
                v = ev_val(t, env) if t[0] in ('discr', 'arg', 'const') else int(ev_bool(t, env))
            except ValueError:
                return None
        if c[0] == 'eq' and v != c[1]:
            return False
        if c[0] == 'ne' and v in c[1]:
            return False
    return True


def eval_fn(paths, env):
    for p in paths:
        m = path_matches(p, env)
        if m:
            if p.ret is None:
                return None
            try:
                return ev_bool(p.ret, env)
            except ValueError:
                return None
    return None


def level_variants(F):
    return [v['name'] for v in F.adts[LEVEL]['variants']]


def match_tables(F, R):
    variants = level_variants(F)
    vidx = {n: i for i, n in enumerate(variants)}
    _VIDX.update(vidx)
    # --- string impl: <T as MatchLevel>::match_level
    sb = F.one(r'^<T as topic::MatchLevel>::match_level$')
    sp = [p for p in SymEx(sb, F, call_model=atom_model).run() if p.end[0] == 'return']
    R.ob('C18.match-table', 'str-impl|paths', len(sp) >= 5, '%d paths' % len(sp))

    def str_match(filter_kind, topic, index, same):
        """topic: '' | 'a' | '$s'; same: whether the topic string equals the filter's string"""
        env = {'discr2': vidx[filter_kind], 'index': index, 'sys': topic.startswith('$'), 'empty': topic == '', 'eq': same}
        return eval_fn(sp, env)
    # expected 4.7 table for one level
    n = 0
    for fk in variants:
        for topic in ('', 'a', '$s'):
            for index in (0, 1):
                for same in (True, False):
                    if fk in ('Normal', 'System'):
                        want = same and (fk == 'Normal' or topic.startswith('$'))
                    elif fk == 'Blank':
                        want = topic == ''
                    else:
                        want = not (index == 0 and topic.startswith('$'))
                    got = str_match(fk, topic, index, same)
                    n += 1
                    R.ob('C18.match-table', 'str-impl|%s|topic=%r|index%s0|same=%s' % (fk, topic, '=' if index == 0 else '>', same), got == want,
                         'filter level %s vs topic level %r at index %d (strings equal: %s): implementation %s, MQTT 4.7 %s' % (fk, topic, index, same, got, want))
    R.counts['C18.match-table:str-impl cases'] = n
    # --- filter-vs-filter impl
    fb = F.one(r'^topic::match_level_impl$')
    fp = [p for p in SymEx(fb, F, call_model=atom_model).run() if p.end[0] == 'return']
    R.ob('C18.match-table', 'filter-impl|paths', len(fp) >= 5, '%d paths' % len(fp))

    def filt_match(sub_kind, sup_kind, index, same):
        env = {'discr1': vidx[sub_kind], 'discr2': vidx[sup_kind], 'index': index, 'eq': same, 'sys': False, 'empty': False}
        return eval_fn(fp, env)
    # monotonicity: sub covered by sup at i  =>  every topic level matched by sub at i is matched by sup at i
    m = 0
    for subk in variants:
        for supk in variants:
            for index in (0, 1):
                for same in (True, False):
                    cov = filt_match(subk, supk, index, same)
                    if cov is None:
                        R.ob('C18.match-table', 'filter-impl|%s<=%s|evaluable' % (subk, supk), False, 'could not evaluate the extracted table')
                        continue
                    if not cov:
                        continue
                    # topic levels t; the strings: sub's string is 'a' ('$s' for System), sup's string equals it iff same
                    for topic in ('', 'a', 'b', '$s', '$t'):
                        sub_str = '$s' if subk == 'System' else 'a'
                        sup_str = sub_str if same else ('$t' if supk == 'System' else 'b')
                        t_sub = str_match(subk, topic, index, topic == sub_str)
                        t_sup = str_match(supk, topic, index, topic == sup_str)
                        m += 1
                        if t_sub and not t_sup:
                            R.ob('C18.match-table', 'filter-impl|covers(%s<=%s,index%s0,same=%s)|monotone' % (subk, supk, '=' if index == 0 else '>', same), False,
                                 'matches_filter reports filter level %s covered by %s at index %d, but topic level %r is matched by the former and not by the latter' % (subk, supk, index, topic))
    R.ob('C18.match-table', 'filter-impl|monotone-wrt-string-relation', True, '%d (cover, topic) combinations examined' % m)
    R.counts['C18.match-table:monotonicity combinations'] = m
    # --- match_topic end-of-input rules
    mt = F.one(r'^topic::match_topic$')
    ok_multi = False
    for swb, place, adt, ty, t in discr_switches(mt, ty_pat=r'Option<&topic::TopicFilterLevel>'):
        pass
    rets = [(bi, j, s) for bi, j, s in mt.assigns() if s['lhs']['l'] == 0 and s['rv']['k'] == 'use' and const_val(s['rv']['op']) is not None]
    R.ob('C18.match-table', 'match_topic|has-true-and-false-exits', {const_val(s['rv']['op']) for _, _, s in rets} >= {0, 1}, 'constant results: %s' % sorted({const_val(s['rv']['op']) for _, _, s in rets}))
    # after the loop: next() == Some(MultiWildcard) | None => true ; Some(other) => false
    nexts = [(bi, t) for bi, t in mt.calls_to(r'as std::iter::Iterator>::next$')]
    R.ob('C18.match-table', 'match_topic|next()-sites', len(nexts) >= 2, 'found %d iterator next() calls' % len(nexts))
    tail = None
    for bi, t in nexts:
        if 'TopicFilterLevel' in mt.local_ty(t['dest']['l']) and bi not in mt.reachable_after(bi):
            tail = bi
    ok_tail = False
    if tail is not None:
        r = discr_switch_after_call(mt, tail)
        if r:
            sb_, tg, oth = r
            none_t = tg.get(0, oth)
            some_t = tg.get(1, oth)
            none_reg = mt.reachable(none_t, avoid=[some_t])
            t_true = any(bi in none_reg and const_val(s['rv']['op']) == 1 for bi, j, s in rets)
            # Some(level): discriminant(level)==MultiWildcard -> true else false
            t_mw = False
            t_other_false = False
            for swb, place, adt, ty, tt in discr_switches(mt, adt=LEVEL):
                if swb not in mt.reachable(some_t, avoid=[none_t]) and swb != some_t:
                    continue
                outcome = {}
                tg2 = {v: tb for v, tb in tt['targets']}
                for i, var in enumerate(F.adts[LEVEL]['variants']):
                    tgt = tg2.get(i, tt['otherwise'])
                    others = {x for x in list(tg2.values()) + [tt['otherwise']] if x != tgt}
                    reg_ = mt.reachable(tgt, avoid=others)
                    vals = {const_val(s['rv']['op']) for bi, j, s in rets if bi in reg_}
                    outcome[var['name']] = vals
                t_mw = outcome.get('MultiWildcard') == {1}
                t_other_false = all(v == {0} for k, v in outcome.items() if k != 'MultiWildcard')
                R.table('match_topic: filter level left when the topic is exhausted -> result', {k: sorted(v) for k, v in outcome.items()})
            ok_tail = t_true and t_mw and t_other_false
    R.ob('C18.match-table', 'match_topic|end-of-topic: None|# => true, other => false', ok_tail, 'when the topic is exhausted the filter must be exhausted too or continue with `#` (parent level rule)')


def param_use(F, R):
    b = F.one(r'^topic::match_level_impl$')
    for argn, name in ((1, 'subset_level'), (2, 'superset_level'), (3, 'index')):
        used = False
        for bi, j, s in b.stmts():
            if s['k'] != 'assign':
                continue
            rv = s['rv']
            ops = [rv.get('op'), rv.get('a'), rv.get('b')] + rv.get('fields', [])
            for o in ops:
                p = op_place(o)
                if p and p['l'] == argn:
                    used = True
            if rv.get('place') and rv['place']['l'] == argn:
                used = True
        for bi, t in b.calls():
            for a in t['args']:
                p = op_place(a)
                if p and p['l'] == argn:
                    used = True
        R.ob('C18.param-use', 'match_level_impl|%s-used' % name, used,
             'parameter `%s` of the filter-vs-filter level relation never influences the result: the "$"-rule at index 0 cannot be honoured' % name)


def level_validity(F, R):
    """TopicFilterLevel::is_valid: every variant that carries text (Normal, System) refuses the wildcard
    characters; extracted per variant from the match."""
    b = F.one(r'^topic::TopicFilterLevel::is_valid$')
    adt = F.adts[LEVEL]
    ve = variant_edges(F, b, LEVEL)
    texty = [v['name'] for v in adt['variants'] if v.get('fields')]
    R.floor('C18.match-table', 'TopicFilterLevel variants with text', len(texty), 2)
    conts = [(bi, t) for bi, t in b.calls() if re.search(r'::contains$', callee_name(t) or '')]
    for v in texty:
        edges = ve.get(v, [])
        reg = arm_region(b, edges) if edges else set()
        # blocks reachable from this variant's edge
        reach = set()
        for e in edges:
            reach |= b.reachable(e[1])
        hit = [(bi, t) for bi, t in conts if bi in reach]
        chars = set()
        for bi, t in hit:
            for a in t['args'][1:]:
                c = op_const(a)
                sv = json.dumps(c) if c else ''
                for ch in ('+', '#'):
                    if ("'%s'" % ch) in sv or ('"%s"' % ch) in sv or ('%d' % ord(ch)) in sv:
                        chars.add(ch)
                p_ = op_place(a)
                if p_:
                    for d_ in b.whole_defs(p_['l']):
                        if d_[2] == 'assign':
                            sv = json.dumps(d_[3]['rv'])
                            for ch in ('+', '#'):
                                if ('%d' % ord(ch)) in sv or ("'%s'" % ch) in sv:
                                    chars.add(ch)
        # the result on that path is the negation of contains: a path from the variant edge to `true` constant without passing contains is a hole
        true_sites = [bi for bi, j, s in b.assigns() if s['lhs']['l'] == 0 and s['rv']['k'] == 'use' and const_val(s['rv']['op']) == 1]
        skip = [x for x in true_sites if any(x in b.reachable(e[1], avoid=[h for h, _ in conts]) for e in edges)]
        R.ob('C18.match-table', 'TopicFilterLevel::is_valid|%s|wildcard-characters-refused' % v, bool(edges) and bool(hit) and not skip and chars >= {'+', '#'},
             'a %s level containing + or # is accepted by the level validator although the string validator refuses it (chars tested: %s)' % (v, sorted(chars)), b.loc(0))


def run(F, R):
    level_validity(F, R)
    valid_dfa(F, R)
    match_tables(F, R)
    param_use(F, R)
