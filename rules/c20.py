"""C20 (wiring only): flag-consistency: KA_ENABLED is set iff the configured keep-alive is non-zero at
both places that establish it; reset-on-frame: a decoded frame clears KA_TIMEOUT|READ_TIMEOUT and the
partial-frame byte count, handle_timeout reports KeepAliveTimeout only under KA_TIMEOUT and ReadTimeout
only under READ_TIMEOUT, both keep-alive sources end in Control::proto, read-rate arithmetic cannot
underflow; guards: the first read of both handshake services is inside timeout_checked(connect_timeout),
version detection runs under Deadline(protocol_version_timeout), the client connect under
timeout_checked(handshake_timeout); client-ping: every client start* variant spawns the keep-alive task
iff keepalive is non-zero, the task sleeps the keep-alive period and stops only when the sink is
closed. WHEN timers fire ('live peers are never timed out', arrival patterns) is about time and is not
decided. reset-on-frame (continued): handle_timeout starts a new rate period (read_remains_prev <- read_remains, read_remains <- 0) on every path that extends the read timer. guards (continued): the MQTT 5 server stores Server Keep Alive on the edge `client keep-alive > ack.keepalive` (the two fields compared as they are) and arms the idle timer with ack.keepalive. client-ping (continued): MqttSink::ping hands a PINGREQ to the encoder on every path.
"""
from facts import *
from disp import agg_sites
import panics


def flags_const(F, name):
    # bitflags constants of io::Flags, by value from the consts table
    for k, v in F.consts.items():
        if k.startswith('io::') and k.endswith('::' + name):
            return v['v']
    return None


def flag_names(b, op, depth=0):
    """Names of the bitflags constants an operand is built from (through `|` / union)."""
    c = op_const(op)
    if c is not None:
        nm = str(c.get('def') or c.get('s') or '')
        return {nm.split('::')[-1]} if nm else set()
    p = op_place(op)
    if p is None or depth > 6:
        return set()
    out = set()
    for (bi, si, kind, x) in b.whole_defs(p['l']):
        if kind == 'assign' and x['rv']['k'] in ('use', 'cast'):
            out |= flag_names(b, x['rv']['op'], depth + 1)
        elif kind == 'call' and re.search(r'::(bitor|union|bitand|from_bits_retain|from_bits_truncate)$', callee_name(x) or ''):
            for a in x['args']:
                out |= flag_names(b, a, depth + 1)
    return out


def flag_calls(b, method):
    """Calls of io::Flags::{insert,remove,contains} with the constant names of the argument."""
    out = []
    for bi, t in b.calls():
        nm = callee_name(t) or ''
        if re.search(r'io::.*Flags>?::%s$' % method, nm):
            out.append((bi, t, sorted(flag_names(b, t['args'][1]))))
    return out


def flag_consistency(F, R):
    for pat, key in ((r'^io::Dispatcher::<P, C, U, E>::new$', 'Dispatcher::new'), (r'^io::Dispatcher::<P, C, U, E>::keepalive_timeout$', 'Dispatcher::keepalive_timeout')):
        b = F.one(pat)
        zs = []
        for bi, t in b.calls_to(r'ntex_util::time::Seconds::is_zero$|Seconds::is_zero$'):
            r = call_bool_branch(b, bi)
            if r and r[0] != 'discr':
                zs.append((r[0], r[1], r[2]))
        if not zs:
            # branch-free form: `flags.set(KA_ENABLED, !timeout.is_zero())`
            sets_ = [(bi, t) for bi, t, names in flag_calls(b, 'set') if any('KA_ENABLED' in n for n in names) and len(t['args']) > 2]
            okset = False
            for bi, t in sets_:
                # value = Not(is_zero(..)): walk the definitions, counting negations
                p_, neg = op_place(t['args'][2]), 0
                for _ in range(6):
                    ds_ = [d for d in b.whole_defs(p_['l']) if d[0] in b.live] if p_ and not place_proj(p_) else []
                    if len(ds_) != 1:
                        break
                    d_ = ds_[0]
                    if d_[2] == 'assign' and d_[3]['rv']['k'] == 'un' and d_[3]['rv']['op'] == 'Not':
                        neg += 1
                        p_ = op_place(d_[3]['rv']['a'])
                    elif d_[2] == 'assign' and d_[3]['rv']['k'] == 'use':
                        p_ = op_place(d_[3]['rv']['op'])
                    elif d_[2] == 'call' and re.search(r'Seconds::is_zero$', callee_name(d_[3]) or ''):
                        okset = okset or neg % 2 == 1
                        break
                    elif d_[2] == 'call' and re.search(r'Seconds::non_zero$', callee_name(d_[3]) or ''):
                        okset = okset or neg % 2 == 0
                        break
                    else:
                        break
            if not sets_ and key == 'Dispatcher::new':
                # the constructor hands the configured value to the builder method checked next: every return passes that
                # call and returns its result
                ks = [bi for bi, t in b.calls_to(r'^io::Dispatcher::<P, C, U, E>::keepalive_timeout$')]
                via = len(ks) == 1 and all(b.must_pass(ks, rb) for rb in b.returns()) and \
                    any(l[0] == 'call' and l[2] == ks[0] for l in Origin(b).of_operand({'mv': {'l': 0, 'p': []}}))
                if via:
                    for what in ('tests timeout.is_zero()', 'non-zero=>KA_ENABLED', 'zero=>KA_ENABLED-cleared'):
                        R.ob('C20.flag-consistency', '%s|%s' % (key, what), True, '', b.loc(ks[0]))
                    continue
            R.ob('C20.flag-consistency', '%s|tests timeout.is_zero()' % key, len(sets_) == 1 and okset, 'found no is_zero test and no `flags.set(KA_ENABLED, !timeout.is_zero())` (%d set calls)' % len(sets_))
            R.ob('C20.flag-consistency', '%s|non-zero=>KA_ENABLED' % key, len(sets_) == 1 and okset, 'KA_ENABLED must be set exactly for a non-zero keep-alive')
            R.ob('C20.flag-consistency', '%s|zero=>KA_ENABLED-cleared' % key, len(sets_) == 1 and okset, 'with a zero keep-alive the KA_ENABLED flag must be cleared')
            continue
        R.ob('C20.flag-consistency', '%s|tests timeout.is_zero()' % key, len(zs) == 1, 'found %d is_zero tests' % len(zs))
        for sb, zero_t, nonzero_t in zs:
            zreg = b.reachable(zero_t, avoid=[nonzero_t])
            nreg = b.reachable(nonzero_t, avoid=[zero_t])
            ka_on = []
            ka_off = []
            for bi, j, s in b.stmts():
                if s['k'] == 'assign':
                    c = op_const(s['rv'].get('op')) if s['rv']['k'] == 'use' else None
                    if c and 'KA_ENABLED' in str(c.get('def', '')) + str(c.get('s', '')):
                        (ka_on if bi in nreg else ka_off).append(bi)
            for bi, t, names in flag_calls(b, 'insert'):
                if any('KA_ENABLED' in n for n in names):
                    (ka_on if bi in nreg and bi not in zreg else ka_off).append(bi)
            rm = [bi for bi, t, names in flag_calls(b, 'remove') if any('KA_ENABLED' in n for n in names)]
            em = [bi for bi, t in b.calls() if re.search(r'Flags>?::empty$', callee_name(t) or '')]
            ok_on = bool(ka_on) and all(x in nreg for x in ka_on) and not ka_off
            ok_off = any(x in zreg for x in rm + em)
            R.ob('C20.flag-consistency', '%s|non-zero=>KA_ENABLED' % key, ok_on, 'KA_ENABLED must be set exactly on the non-zero edge (set at %d places on it, %d elsewhere)' % (len(ka_on), len(ka_off)))
            R.ob('C20.flag-consistency', '%s|zero=>KA_ENABLED-cleared' % key, ok_off, 'with a zero keep-alive the KA_ENABLED flag must be cleared/empty (the 8.2.1 defect class: one place forgets)')


def reset_on_frame(F, R):
    u = F.one(r'^io::DispatcherInner::<P, C, U, E>::update_timer$')
    somes = []
    for bi, t in u.calls_to(r'^std::option::Option::<T>::is_some$'):
        ap = call_recv_path(u, t, 0)
        if ap and ap[-1] == 'item':
            r = call_bool_branch(u, bi)
            if r and r[0] != 'discr':
                somes.append((r[0], r[1], r[2]))
    if not somes:
        # the test may be done by the caller and handed in as a bool: `update_timer(item.is_some(), remains)` - then every call
        # site passes `is_some()` of the decoded item, and update_timer branches on that parameter
        for ai in range(2, u.argc + 1):
            if (u.local_ty(ai) or '') != 'bool':
                continue
            sites_ok, nsites = True, 0
            for cb in F.bodies.values():
                for bi, t in cb.calls_to(r'^io::DispatcherInner::<P, C, U, E>::update_timer$'):
                    nsites += 1
                    og = Origin(cb).of_operand(t['args'][ai - 1])
                    calls_ = [l for l in og if l[0] == 'call']
                    ok_ = len(calls_) == 1 and calls_[0][1].endswith('Option::<T>::is_some') and \
                        (call_recv_path(cb, cb.blocks[calls_[0][2]]['term'], 0) or ('',))[-1] == 'item' and not any(l[0] in ('binop', 'const') for l in og)
                    sites_ok = sites_ok and ok_
            r = bool_branch(u, 0, ai) if nsites and sites_ok else None
            if r is None and nsites and sites_ok:
                for sb_ in sorted(u.live):
                    t_ = u.blocks[sb_]['term']
                    if t_['k'] == 'switch' and const_of_local(u, t_['discr']) is None:
                        p_ = op_place(t_['discr'])
                        l_ = p_['l'] if p_ and not place_proj(p_) else None
                        for _ in range(4):
                            ds_ = [d for d in u.whole_defs(l_) if d[0] in u.live] if l_ is not None and l_ > u.argc else []
                            if len(ds_) == 1 and ds_[0][2] == 'assign' and ds_[0][3]['rv']['k'] == 'use' and op_place(ds_[0][3]['rv']['op']) is not None:
                                l_ = op_place(ds_[0][3]['rv']['op'])['l']
                            else:
                                break
                        if l_ == ai and len(t_['targets']) == 1 and t_['targets'][0][0] == 0:
                            r = (sb_, t_['otherwise'], t_['targets'][0][1])
                            break
            if r:
                somes.append((r[0], r[1], r[2]))
    R.ob('C20.reset-on-frame', 'update_timer|tests decoded.item.is_some()', len(somes) == 1, 'found %d' % len(somes))
    for sb, yes, no in somes:
        reg = u.reachable(yes, avoid=[no])
        rms = [names for bi, t, names in flag_calls(u, 'remove') if bi in reg]
        flat = {n for ns in rms for n in ns}
        R.ob('C20.reset-on-frame', 'update_timer|frame=>clears KA_TIMEOUT|READ_TIMEOUT', any('KA_TIMEOUT' in n for n in flat) and any('READ_TIMEOUT' in n for n in flat), 'flags cleared on a decoded frame: %s' % sorted(flat))
        zero = [bi for bi, j, s in u.assigns() if bi in reg and place_fields(s['lhs'])[-1:] == ['read_remains'] and s['rv']['k'] == 'use' and const_val(s['rv']['op']) == 0]
        R.ob('C20.reset-on-frame', 'update_timer|frame=>read_remains=0', bool(zero), 'the partial-frame byte count is not reset when a complete frame was decoded')
    # starting the read-rate timer re-arms the whole budget, unconditionally
    starts = [(bi, names) for bi, t, names in flag_calls(u, 'insert') if any('READ_TIMEOUT' in n for n in names)]
    R.ob('C20.reset-on-frame', 'update_timer|read-timer start site', len(starts) == 1, 'found %d places that set READ_TIMEOUT' % len(starts))
    for bi, names in starts:
        tgt = u.blocks[bi]['term'].get('target', bi)
        rets = u.returns()
        def assigns_field(name):
            return {xb for xb, j, s in u.assigns() if place_fields(s['lhs'])[-1:] == [name]}
        effects = {
            'read_max_timeout=params.max_timeout': {xb for xb, j, s in u.assigns() if place_fields(s['lhs'])[-1:] == ['read_max_timeout'] and s['rv']['k'] == 'use' and (apath(u, s['rv']['op']) or ('',))[-1] == 'max_timeout'},
            'read_remains_prev=0': {xb for xb, j, s in u.assigns() if place_fields(s['lhs'])[-1:] == ['read_remains_prev'] and s['rv']['k'] == 'use' and const_val(s['rv']['op']) == 0},
            'read_remains=decoded.remains': {xb for xb, j, s in u.assigns() if place_fields(s['lhs'])[-1:] == ['read_remains'] and xb in u.reachable(tgt)},
            'start_timer(params.timeout)': {xb for xb, t in u.calls_to(r'IoRef::start_timer$|::start_timer$') if xb in u.reachable(tgt)},
        }
        for what, blocks in sorted(effects.items()):
            ok = bool(blocks) and all(u.must_pass(blocks, r_, start=tgt) for r_ in rets)
            R.ob('C20.reset-on-frame', 'update_timer|read-timer start|%s (unconditional)' % what, ok,
                 'when the frame read timer is started this step can be skipped: budget consumed by an earlier slow frame leaks into the next one and a peer that is fast enough is timed out', u.loc(bi))
    # pausing reads stops the io timer: the timeout flags must be cleared with it, otherwise the stale flag
    # prevents update_timer from arming a timer again and an idle peer is never timed out
    ps_ = F.one(r'^io::DispatcherInner::<P, C, U, E>::poll_service$')
    stops = [bi for bi, t in ps_.calls_to(r'IoRef::stop_timer$|::stop_timer$')]
    # (a stop_timer that is part of stopping the connection - followed on every path by `st = Stop(..)` - is not a pause)
    import c07
    stop_stores = {bi_ for bi_, var_, s_ in c07.state_stores(ps_) if var_ == 'Stop'}
    stops = [x for x in stops if not (stop_stores and all(ps_.must_pass(stop_stores, r_, start=x) for r_ in ps_.returns() if r_ in ps_.reachable(x)))]
    R.ob('C20.reset-on-frame', 'poll_service|stop_timer sites', len(stops) >= 1, 'found %d' % len(stops))
    for sb_ in stops:
        rms = [bi for bi, t, names in flag_calls(ps_, 'remove') if any('KA_TIMEOUT' in n for n in names) and any('READ_TIMEOUT' in n for n in names)]
        ok = any(r_ in ps_.dom.get(sb_, ()) for r_ in rms) or (bool(rms) and all(ps_.must_pass(rms, x, start=ps_.blocks[sb_]['term'].get('target', sb_)) for x in ps_.returns() if x in ps_.reachable(sb_)))
        R.ob('C20.reset-on-frame', 'poll_service|stop_timer=>KA_TIMEOUT|READ_TIMEOUT cleared', ok,
             'the io timer is stopped while a timeout flag stays set: no timer is armed again until the peer sends a complete frame, so an idle peer is never ended by keep-alive', ps_.loc(sb_))
    h = F.one(r'^io::DispatcherInner::<P, C, U, E>::handle_timeout$')
    conts = {}
    for bi, t, names in flag_calls(h, 'contains'):
        r = call_bool_branch(h, bi)
        if r and r[0] != 'discr':
            for n in names:
                conts[n] = (r[0], r[1])
    for err, flag in (('KeepAliveTimeout', 'KA_TIMEOUT'), ('ReadTimeout', 'READ_TIMEOUT')):
        sites = [bi for bi, j, s in agg_sites(h, r'^error::ProtocolError$', err)]
        edge = [v for k, v in conts.items() if flag in k]
        ok = bool(sites) and bool(edge) and all(edge_dominates(h, edge[0][0], edge[0][1], x) for x in sites)
        R.ob('C20.reset-on-frame', 'handle_timeout|%s only under %s' % (err, flag), ok, '%s must be reported only when the %s flag is set' % (err, flag))
    # a new rate period starts whenever the read timer is extended: the bytes seen so far become the baseline
    # (read_remains_prev <- read_remains) on every path to start_timer, whatever the max-timeout setting is
    starts = [bi for bi, t in h.calls() if re.search(r'::start_timer$', callee_name(t) or '')]
    adv = {bi for bi, j, s in h.assigns() if place_fields(s['lhs'])[-1:] == ['read_remains_prev']}
    zero = {bi for bi, j, s in h.assigns() if place_fields(s['lhs'])[-1:] == ['read_remains'] and s['rv']['k'] == 'use' and const_val(s['rv']['op']) == 0}
    R.ob('C20.reset-on-frame', 'handle_timeout|extends-the-read-timer', bool(starts), 'handle_timeout never re-arms the read timer')
    for x in starts:
        R.ob('C20.reset-on-frame', 'handle_timeout|timer-extended=>rate-window-advanced', bool(adv) and h.must_pass(adv, x) and (not zero or h.must_pass(zero, x)),
             'the read timer can be extended without starting a new rate period (read_remains_prev / read_remains not updated on some path): the byte count compared with the rate is then cumulative, so a peer that sent one burst and stalled is extended forever', h.loc(x))
    asserts = [s for s in panics.sites(h) if s['kind'] == 'assert']
    R.ob('C20.reset-on-frame', 'handle_timeout|read-rate arithmetic cannot underflow', not asserts, 'unchecked arithmetic on read_remains: %s' % [s['what'] for s in asserts])
    # both keep-alive sources end in Control::proto (imported from C07.reason-map)
    import c07, runner
    rep = runner.Report('C07', 'quick')
    poll = F.one(r'^<io::Dispatcher<P, C, U, E> as std::future::Future>::poll$')
    ps = F.one(r'^io::DispatcherInner::<P, C, U, E>::poll_service$')
    c07.reason_map(F, rep, poll, ps)
    bad = [i for i in rep.items if not i['ok'] and 'KeepAlive' in i['key']]
    ka = [i for i in rep.items if 'KeepAlive' in i['key']]
    R.ob('C20.reset-on-frame', 'keep-alive sources => Control::proto (C07.reason-map)', len(ka) >= 3 and not bad, '; '.join(i['key'] for i in bad))
    # v5: KeepAliveTimeout -> 0x8D (C15 table)
    import c15
    rep2 = runner.Report('C15', 'quick')
    c15.cause_code(F, rep2)
    bad = [i for i in rep2.items if not i['ok'] and 'KeepAliveTimeout' in i['key']]
    R.ob('C20.reset-on-frame', 'v5 KeepAliveTimeout => DISCONNECT 0x8D (C15.cause-code)', not bad, '; '.join(i['key'] for i in bad))


def guards(F, R):
    for ver in ('v3', 'v5'):
        b = F.one(r'^<%s::server::HandshakeService<St, H> as ntex_service::Service<ntex_io::IoBoxed>>::call::\{closure#0\}$' % ver)
        tcs = [(bi, t) for bi, t in b.calls_to(r'ntex_util::time::timeout_checked$|timeout_checked$')]
        recvs = [(bi, t) for bi, t in b.calls_to(r'^ntex_io::.*::recv$')]
        ok = False
        for bi, t in tcs:
            ap = apath(b, t['args'][0])
            og = Origin(b).of_operand(t['args'][1])
            ok = ok or (ap is not None and ap[-1] == 'connect_timeout' and any(l[0] == 'call' and l[1].endswith('::recv') for l in og))
        R.ob('C20.guards', '%s|handshake first read inside timeout_checked(connect_timeout)' % ver, ok and len(recvs) == 1, 'the first packet is read without the connect timeout (timeout_checked sites %d, recv sites %d)' % (len(tcs), len(recvs)))
        cands = F.find(r'^<%s::client::connector::MqttConnectorService<A, T> as ntex_service::Service<.*>>::call::\{closure#0\}$' % ver)
        c = cands[0] if len(cands) == 1 else None
        ok = False
        if c is not None:
            for bi, t in c.calls_to(r'timeout_checked$'):
                ap = apath(c, t['args'][0])
                og = Origin(c).of_operand(t['args'][1])
                ok = ok or (ap is not None and ap[-1] == 'handshake_timeout' and any(l[0] == 'call' and l[1].endswith('connect_inner') for l in og))
        R.ob('C20.guards', '%s|client connect inside timeout_checked(handshake_timeout)' % ver, ok, 'the client handshake is not bounded by handshake_timeout')
    s = F.one(r'^<server::MqttServerImpl<V3, V5, Err> as ntex_service::Service<ntex_io::IoBoxed>>::call::\{closure#0\}$')
    dl = [(bi, t) for bi, t in s.calls_to(r'Deadline::new$')]
    ok = any((apath(s, t['args'][0]) or ('',))[-1] == 'protocol_version_timeout' for bi, t in dl)
    sel = [bi for bi, t in s.calls_to(r'ntex_util::future::select$|::select$')]
    R.ob('C20.guards', 'MqttServerImpl|version detection under Deadline(protocol_version_timeout)', ok and bool(sel), 'version detection is not raced against the protocol-version deadline')


def server_keepalive_announced(F, R):
    """MQTT 5 server: the idle timer is armed with `ack.keepalive`; when that is shorter than the keep-alive the client asked
    for, the client must be told (Server Keep Alive in CONNACK), or it pings by its own, longer period and is cut off. The
    announcement is stored on the edge `client keep-alive > ack.keepalive`, the two values compared as they are (no
    allowance on either side: the timer has none)."""
    b = F.one(r'^<v5::server::HandshakeService<St, H> as ntex_service::Service<ntex_io::IoBoxed>>::call::\{closure#0\}$')
    stores = [(bi, s) for bi, j, s in b.assigns() if place_fields(s['lhs'])[-1:] == ['server_keepalive_sec']]
    cmps = []
    for bi, j, s in b.assigns():
        rv = s['rv']
        if rv['k'] != 'bin' or rv['op'] not in ('Gt', 'Lt', 'Ge', 'Le'):
            continue
        pa, pb = apath(b, rv['a']) or ('',), apath(b, rv['b']) or ('',)
        sides = {pa[-1]: rv['a'], pb[-1]: rv['b']}
        if 'keep_alive' in sides and 'keepalive' in sides:
            op = rv['op'] if pa[-1] == 'keep_alive' else {'Gt': 'Lt', 'Lt': 'Gt', 'Ge': 'Le', 'Le': 'Ge'}[rv['op']]
            r = bool_branch(b, bi, s['lhs']['l'])
            if r:
                cmps.append((bi, op, r))
    ok = False
    why = 'found %d store(s) of server_keepalive_sec and %d direct comparison(s) of the client keep-alive with ack.keepalive' % (len(stores), len(cmps))
    for sbi, s in stores:
        for cbi, op, (sw, tt, ft) in cmps:
            edge = tt if op in ('Gt', 'Ge') else ft
            if edge_dominates(b, sw, edge, sbi):
                ok = True
    R.ob('C20.guards', 'v5-server|Server-Keep-Alive-announced-when-client-keep-alive>enforced', ok,
         'the CONNACK announces the server\'s keep-alive under a condition other than `client keep-alive > ack.keepalive` (%s): a client whose own, longer period stays in force is timed out by the un-announced shorter one' % why,
         b.loc(stores[0][0]) if stores else b.loc(0))
    # the timer is armed with that same value
    oks = [(bi, s) for bi, j, s in agg_sites(b, r'^ntex_util::time::(types::)?Seconds$')]
    armed = [bi for bi, s in oks if s['rv']['fields'] and (apath(b, s['rv']['fields'][0]) or ('',))[-1] == 'keepalive']
    R.ob('C20.guards', 'v5-server|idle-timer-armed-with-ack.keepalive', bool(armed), 'the keep-alive handed to the dispatcher is not ack.keepalive (Seconds(..) built from: %s)' % [apath_str(apath(b, s['rv']['fields'][0])) for bi, s in oks][:3])


def client_ping(F, R):
    for ver in ('v3', 'v5'):
        starts = [b for b in F.find(r'^%s::client::connection::(Client|ClientRouter::<Err, PErr>)::start\w*::\{closure#0\}$' % ver)]
        R.floor('C20.client-ping', '%s client start* variants' % ver, len(starts), 5)
        for b in starts:
            # a variant that only hands over to a sibling start* (every way out passes that call) inherits the sibling's wiring
            dl = [bi for bi, t in b.calls_to(r'^%s::client::connection::(Client|ClientRouter::<Err, PErr>)::start\w*$' % ver)]
            if dl and not list(b.calls_to(r'::spawn$')) and all(b.must_pass(dl, rb) for rb in b.returns()):
                R.ob('C20.client-ping', '%s|spawns keepalive iff keepalive.non_zero()' % re.sub(r'::\{closure#0\}$', '', b.path), True, '', b.loc(dl[0]))
                continue
            nz = []
            for bi, t in b.calls_to(r'Seconds::non_zero$'):
                r = call_bool_branch(b, bi)
                if r and r[0] != 'discr':
                    nz.append((r[0], r[1], r[2]))
            sp = [(bi, t) for bi, t in b.calls_to(r'::spawn$')]
            ka = [(bi, t) for bi, t in b.calls_to(r'^%s::client::connection::keepalive$' % ver)]
            ok = len(nz) == 1 and bool(ka) and all(edge_dominates(b, nz[0][0], nz[0][1], x) for x, _ in ka) and any(edge_dominates(b, nz[0][0], nz[0][1], x) for x, _ in sp)
            # and always on that edge
            if ok:
                targets = set(b.returns()) | {a['poll'] for a in await_points(b)}
                ok = not (targets & b.reachable(nz[0][1], avoid={x for x, _ in sp}))
            name = re.sub(r'::\{closure#0\}$', '', b.path)
            R.ob('C20.client-ping', '%s|spawns keepalive iff keepalive.non_zero()' % name, ok, 'this start variant does not start the keep-alive task exactly when a keep-alive is configured')
            for bi, t in ka:
                ap = apath(b, t['args'][1])
                R.ob('C20.client-ping', '%s|keepalive(period = self.keepalive)' % name, ap is not None and ap[-1] == 'keepalive', 'the task is started with %s' % apath_str(ap))
        k = F.one(r'^%s::client::connection::keepalive::\{closure#0\}$' % ver)
        sl = [(bi, t) for bi, t in k.calls_to(r'ntex_util::time::sleep$|::sleep$')]
        okp = False
        for bi, t in sl:
            og = Origin(k, transparent=re.compile(TRANSPARENT_CALLS.pattern[:-2] + r'|from)$')).of_operand(t['args'][0])
            okp = okp or any(l[0] == 'arg' and l[2][-1:] == ('1',) or l[0] == 'arg' for l in og)
        R.ob('C20.client-ping', '%s|keepalive task sleeps the keep-alive period' % ver, bool(sl) and okp, 'the period slept does not derive from the keep-alive argument')
        pings = [(bi, t) for bi, t in k.calls_to(r'^%s::sink::MqttSink::ping$' % ver)]
        opens = []
        for bi, t in k.calls_to(r'^%s::sink::MqttSink::is_open$' % ver):
            r = call_bool_branch(k, bi)
            if r and r[0] != 'discr':
                opens.append((r[0], r[1], r[2]))
        R.ob('C20.client-ping', '%s|keepalive task pings every period' % ver, len(pings) == 1 and pings[0][0] in k.reachable_after(pings[0][0]), 'the PINGREQ is not sent from inside the loop')
        # the loop's only exit is the closed-sink edge: from the ping block the loop head must be reached on every path
        ok = False
        if pings and opens:
            pb = pings[0][0]
            exits = set(k.returns())
            # paths from ping to return that do not go through the `is_open() == false` edge
            succ = [list(s_) for s_ in k.succ]
            for sb, yes, no in opens:
                succ[sb] = [x for x in succ[sb] if x != no]
            reach = k.reachable(k.succ[pb], succ=succ)
            ok = not (exits & reach)
        # every iteration that finds the sink open pings: no path from the open edge back to the sleep skips ping()
        okq = False
        if pings and opens and sl:
            pb = pings[0][0]
            sb, yes, no = opens[0]
            heads = {x for x, _ in sl}
            back = k.reachable(yes, avoid={pb})
            okq = not (heads & back) and not (set(k.returns()) & back)
        R.ob('C20.client-ping', '%s|every period with an open sink sends PINGREQ (ping not gated by anything else)' % ver, okq,
             'an iteration of the keep-alive loop can skip ping() although the connection is open (e.g. gated on send credit / back-pressure): an idle client is then timed out by the server')
        # ping() itself writes the PINGREQ whenever it is called: no state of the sink (recent traffic, credit) makes it skip
        pg = F.one(r'^%s::sink::MqttSink::ping$' % ver)
        enc = [bi for bi, t in pg.calls_to(r'^%s::shared::MqttShared::encode_packet$' % ver)
               if any(l[0] == 'agg' and l[1].endswith('Packet::PingRequest') for a in t['args'][1:] for l in Origin(pg).of_operand(a))]
        R.ob('C20.client-ping', '%s|MqttSink::ping|every-call-writes-PINGREQ' % ver, bool(enc) and all(pg.must_pass(enc, rb) for rb in pg.returns()),
             'ping() can return without handing a PINGREQ to the encoder (skipped on some state of the sink): a period without the ping makes the client look idle to the server for up to two keep-alive periods')
        R.ob('C20.client-ping', '%s|keepalive task stops only when the sink is closed' % ver, ok,
             'the keep-alive loop can end although the connection is still open (e.g. when ping() is refused with ExpectPayload during a streamed publish): no PINGREQ is ever sent again')


def idle_timeout_expr(F, R):
    """v3 Handshake::ack: the idle timeout derived from the client's keep-alive is extracted as an
    expression and evaluated for keep-alive values up to the protocol maximum: it is never shorter than the
    keep-alive itself (a live peer that pings once per period is not timed out), it is 0 only for 0, and it is
    at least min(1.5 x keep-alive, 65535)."""
    from symex import SymEx, term_str_v
    b = F.one(r'^v3::handshake::Handshake::ack$')
    ps = [p for p in SymEx(b, F).run() if p.end[0] == 'return' and p.ret and p.ret[0] == 'agg']
    exprs = []  # (path, expression of the keep-alive field on that path)
    for p in ps:
        for name, v in p.ret[3].items():
            if name in ('keepalive', 'idle_timeout', 'keep_alive'):
                exprs.append((p, v))
    if not exprs:
        raise AnchorLost('Handshake::ack: keepalive field of the returned HandshakeAck')
    expr = exprs[-1][1]

    def ev(t, ka):
        k = t[0]
        if k == 'const':
            return t[1]
        if k in ('ref', 'deref'):
            return ev(t[1], ka)
        if k == 'cast':
            v = ev(t[1], ka)
            bits = {'u8': 8, 'u16': 16, 'u32': 32, 'u64': 64, 'usize': 64}.get(t[2])
            return None if v is None else (v & ((1 << bits) - 1) if bits else v)
        if k == 'field':
            # connect.keep_alive
            return ka if t[2] == 'keep_alive' else None
        if k == 'agg' and len(t[3]) == 1:
            return ev(list(t[3].values())[0], ka)
        if k == 'tuple':
            return ev(t[1][0], ka)
        if k == 'bin':
            a, c = ev(t[2], ka), ev(t[3], ka)
            if a is None or c is None:
                return None
            op = t[1].replace('WithOverflow', '')
            if op == 'Div' and c == 0:
                return None
            if op in ('Eq', 'Ne', 'Gt', 'Lt', 'Ge', 'Le'):
                return int({'Eq': a == c, 'Ne': a != c, 'Gt': a > c, 'Lt': a < c, 'Ge': a >= c, 'Le': a <= c}[op])
            return {'Shr': a >> c, 'Shl': a << c, 'Add': a + c, 'Sub': a - c, 'Mul': a * c, 'Div': a // c if c else None}.get(op)
        if k == 'constx':
            c_ = F.consts.get(t[1]) if isinstance(t[1], str) else None
            return c_.get('v') if c_ and isinstance(c_.get('v'), int) else None
        if k == 'call' and t[1].split('::')[-1] in ('map_or', 'unwrap_or', 'map') and t[2] and t[2][0][0] == 'agg' and t[2][0][1] == 'std::option::Option':
            # `opt.map_or(default, Wrapper)` / `opt.unwrap_or(default)` on an Option whose variant is known on this path
            o_ = t[2][0]
            if o_[2] == 'None':
                return ev(t[2][1], ka) if len(t[2]) > 1 and t[1].split('::')[-1] != 'map' else None
            return ev(o_[3].get('0'), ka)
        if k == 'call':
            base = t[1].split('::')[-1]
            a = [ev(x, ka) for x in t[2]]
            if any(v is None for v in a):
                return None
            ty = 'u32' if '<impl u32>' in t[1] else 'u16'
            mx = (1 << (32 if ty == 'u32' else 16)) - 1
            if base == 'saturating_add':
                return min(a[0] + a[1], mx)
            if base == 'saturating_mul':
                return min(a[0] * a[1], mx)
            if base == 'saturating_sub':
                return max(a[0] - a[1], 0)
            if base in ('from', 'into', 'new'):
                return a[0]
            if base == 'min':
                return min(a)
            if base == 'max':
                return max(a)
            return None
        return None
    vals = sorted(set([0, 1, 2, 3, 10, 59, 60, 61, 300, 21845, 21846, 32767, 32768, 43690, 43691, 43692, 65534, 65535]) | (set(range(0, 65536)) if R.tier == 'thorough' else set(range(0, 400))))
    bad = None
    def path_for(ka):
        # the path whose conditions on the keep-alive hold for this value (conditions on other things are ignored)
        for p_, e_ in exprs:
            ok_ = True
            for t_, c_ in p_.conds:
                v_ = ev(t_, ka) if t_[0] in ('bin', 'field', 'cast', 'call') else None
                if v_ is None:
                    continue
                if (c_[0] == 'eq' and v_ != c_[1]) or (c_[0] == 'ne' and v_ in c_[1]):
                    ok_ = False
                    break
            if ok_:
                return e_
        return expr
    for ka in vals:
        expr_ka = path_for(ka)
        v = ev(expr_ka, ka)
        if v is None and ka == 0:
            continue  # keep-alive 0 = the server's own default (a named constant): no bound to check
        if v is None:
            expr = expr_ka
            bad = 'cannot evaluate %s' % term_str_v(expr)[:120]
            break
        want = min(ka + ka // 2, 65535)
        if v < ka or (ka != 0 and v == 0) or v < want:
            bad = 'keep-alive %d s gives an idle timeout of %d s (expected at least %d)' % (ka, v, want)
            break
    R.counts['C20.guards:keep-alive values evaluated'] = len(vals)
    R.ob('C20.guards', 'v3::Handshake::ack|idle-timeout>=1.5x-keep-alive', bad is None, bad or '', b.loc(0))


def run(F, R):
    idle_timeout_expr(F, R)
    flag_consistency(F, R)
    reset_on_frame(F, R)
    guards(F, R)
    server_keepalive_announced(F, R)
    client_ping(F, R)
