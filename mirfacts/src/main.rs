// mirfacts: rustc_private driver that dumps the `mir_promoted` MIR of every body of the
// `ntex_mqtt` crate (plus type-level facts) as one JSON document.
//
// Usage (see /verif/check): RUSTC_WORKSPACE_WRAPPER=<this binary> cargo +nightly check --lib
// with MIRFACTS_OUT=<path>. The wrapper receives `<rustc> <args...>` and drops argv[1].
#![feature(rustc_private)]
#![allow(rustc::internal)]

extern crate rustc_abi;
extern crate rustc_data_structures;
extern crate rustc_driver;
extern crate rustc_hir;
extern crate rustc_index;
extern crate rustc_interface;
extern crate rustc_middle;
extern crate rustc_mir_transform;
extern crate rustc_session;
extern crate rustc_span;

use std::fmt::Write as _;
use std::sync::Mutex;

use rustc_data_structures::steal::Steal;
use rustc_driver::{Callbacks, Compilation};
use rustc_hir::def::DefKind;
use rustc_hir::def_id::{DefId, LocalDefId, LOCAL_CRATE};
use rustc_index::IndexVec;
use rustc_interface::interface;
use rustc_middle::mir::*;
use rustc_middle::ty::print::with_no_trimmed_paths;
use rustc_middle::ty::{self, Instance, Ty, TyCtxt, TypeVisitableExt, TypingEnv};
use rustc_middle::util::Providers;
use rustc_span::Span;

struct Stash(Vec<(LocalDefId, Body<'static>, Vec<Body<'static>>)>);
unsafe impl Send for Stash {}
static STASH: Mutex<Stash> = Mutex::new(Stash(Vec::new()));
static EXT_ADTS: Mutex<Vec<DefId>> = Mutex::new(Vec::new());

fn my_mir_promoted<'tcx>(
    tcx: TyCtxt<'tcx>,
    def: LocalDefId,
) -> (&'tcx Steal<Body<'tcx>>, &'tcx Steal<IndexVec<Promoted, Body<'tcx>>>) {
    let mut providers = Providers::default();
    rustc_mir_transform::provide(&mut providers);
    let res = (providers.queries.mir_promoted)(tcx, def);
    if tcx.crate_name(LOCAL_CRATE).as_str() == "ntex_mqtt" {
        let body: Body<'tcx> = res.0.borrow().clone();
        // Safety: the bodies are only used inside after_analysis while tcx is alive.
        let body: Body<'static> = unsafe { std::mem::transmute(body) };
        let proms: Vec<Body<'static>> = res.1.borrow().iter().map(|b| unsafe { std::mem::transmute::<Body<'tcx>, Body<'static>>(b.clone()) }).collect();
        STASH.lock().unwrap().0.push((def, body, proms));
    }
    res
}

struct Cb;

impl Callbacks for Cb {
    fn config(&mut self, config: &mut interface::Config) {
        config.override_queries = Some(|_sess, providers| {
            providers.queries.mir_promoted = my_mir_promoted;
        });
    }

    fn after_analysis<'tcx>(
        &mut self,
        _compiler: &interface::Compiler,
        tcx: TyCtxt<'tcx>,
    ) -> Compilation {
        if tcx.crate_name(LOCAL_CRATE).as_str() != "ntex_mqtt" {
            return Compilation::Continue;
        }
        let out = match std::env::var("MIRFACTS_OUT") {
            Ok(p) => p,
            Err(_) => return Compilation::Continue,
        };
        let stash = std::mem::take(&mut STASH.lock().unwrap().0);
        let mut s = String::with_capacity(64 << 20);
        s.push_str("{\"bodies\":[\n");
        let mut first = true;
        for (def, body, proms) in stash.iter() {
            let body: &Body<'tcx> = unsafe { std::mem::transmute(body) };
            if !first {
                s.push_str(",\n");
            }
            first = false;
            let mut cx = Cx { tcx, body, env: TypingEnv::post_analysis(tcx, def.to_def_id()), s: &mut s, promoted: None };
            cx.body(*def);
            for (pi, pb) in proms.iter().enumerate() {
                let pb: &Body<'tcx> = unsafe { std::mem::transmute(pb) };
                s.push_str(",\n");
                let mut cx = Cx { tcx, body: pb, env: TypingEnv::post_analysis(tcx, def.to_def_id()), s: &mut s, promoted: Some(pi) };
                cx.body(*def);
            }
        }
        s.push_str("\n],\n");
        type_facts(tcx, &mut s);
        s.push_str("}\n");
        std::fs::write(&out, s).expect("write facts");
        Compilation::Continue
    }
}

fn esc(s: &str, out: &mut String) {
    out.push('"');
    for c in s.chars() {
        match c {
            '"' => out.push_str("\\\""),
            '\\' => out.push_str("\\\\"),
            '\n' => out.push_str("\\n"),
            '\r' => out.push_str("\\r"),
            '\t' => out.push_str("\\t"),
            c if (c as u32) < 0x20 => {
                let _ = write!(out, "\\u{:04x}", c as u32);
            }
            c => out.push(c),
        }
    }
    out.push('"');
}

fn dps(tcx: TyCtxt<'_>, d: DefId) -> String {
    with_no_trimmed_paths!(tcx.def_path_str(d))
}

fn tys(ty: Ty<'_>) -> String {
    with_no_trimmed_paths!(format!("{}", ty))
}

struct Cx<'a, 'tcx> {
    tcx: TyCtxt<'tcx>,
    body: &'a Body<'tcx>,
    env: TypingEnv<'tcx>,
    s: &'a mut String,
    promoted: Option<usize>,
}

impl<'a, 'tcx> Cx<'a, 'tcx> {
    fn span(&mut self, sp: Span) {
        let sm = self.tcx.sess.source_map();
        let root = sp.source_callsite();
        let loc = sm.lookup_char_pos(root.lo());
        let file = match &loc.file.name {
            rustc_span::FileName::Real(r) => match r.local_path() {
                Some(p) => p.to_string_lossy().to_string(),
                None => format!("{:?}", loc.file.name),
            },
            o => format!("{:?}", o),
        };
        self.s.push_str("\"file\":");
        esc(&file, self.s);
        let _ = write!(self.s, ",\"ln\":{}", loc.line);
        if sp.from_expansion() {
            let mut names = Vec::new();
            for e in sp.macro_backtrace() {
                if let rustc_span::ExpnKind::Macro(_, name) = e.kind {
                    names.push(name.to_string());
                } else {
                    names.push(format!("{:?}", e.kind));
                }
            }
            self.s.push_str(",\"mac\":");
            esc(&names.join(">"), self.s);
        }
    }

    fn body(&mut self, def: LocalDefId) {
        let tcx = self.tcx;
        let did = def.to_def_id();
        self.s.push_str("{\"path\":");
        if let Some(pi) = self.promoted {
            esc(&format!("{}::promoted[{}]", dps(tcx, did), pi), self.s);
            let _ = write!(self.s, ",\"kind\":\"Promoted\",\"coroutine\":false,\"promoted_of\":");
            esc(&dps(tcx, did), self.s);
            self.s.push(',');
            self.span(self.body.span);
            let _ = write!(self.s, ",\"argc\":{}", self.body.arg_count);
            self.s.push_str(",\"locals\":[");
            for (i, (_l, decl)) in self.body.local_decls.iter_enumerated().enumerate() {
                if i > 0 {
                    self.s.push(',');
                }
                self.s.push_str("{\"ty\":");
                esc(&tys(decl.ty), self.s);
                self.s.push('}');
            }
            self.s.push_str("],\"upvars\":[],\"blocks\":[\n");
            for (bi, (_bb, data)) in self.body.basic_blocks.iter_enumerated().enumerate() {
                if bi > 0 {
                    self.s.push_str(",\n");
                }
                self.block(data);
            }
            self.s.push_str("]}");
            return;
        }
        esc(&dps(tcx, did), self.s);
        let kind = tcx.def_kind(did);
        let _ = write!(self.s, ",\"kind\":\"{:?}\"", kind);
        let is_cor = tcx.is_coroutine(did);
        let _ = write!(self.s, ",\"coroutine\":{}", is_cor);
        if matches!(kind, DefKind::Closure | DefKind::InlineConst | DefKind::AnonConst | DefKind::SyntheticCoroutineBody) {
            let p = tcx.parent(did);
            self.s.push_str(",\"parent\":");
            esc(&dps(tcx, p), self.s);
        }
        if matches!(kind, DefKind::AssocFn | DefKind::AssocConst { .. }) {
            if let Some(imp) = tcx.impl_of_assoc(did) {
                self.s.push_str(",\"impl_self\":");
                let st = tcx.type_of(imp).instantiate_identity().skip_norm_wip();
                esc(&tys(st), self.s);
                if let Some(tr) = tcx.impl_opt_trait_ref(imp) {
                    let tr = tr.instantiate_identity().skip_norm_wip();
                    self.s.push_str(",\"impl_trait\":");
                    esc(&dps(tcx, tr.def_id), self.s);
                    self.s.push_str(",\"impl_trait_ref\":");
                    esc(&with_no_trimmed_paths!(format!("{}", tr)), self.s);
                }
            }
            if let Some(tr) = tcx.trait_of_assoc(did) {
                self.s.push_str(",\"in_trait\":");
                esc(&dps(tcx, tr), self.s);
            }
            let _ = write!(self.s, ",\"name\":\"{}\"", tcx.item_name(did));
        }
        if matches!(kind, DefKind::Fn | DefKind::AssocFn) {
            let _ = write!(self.s, ",\"pub\":{}", tcx.visibility(did).is_public());
        }
        if matches!(kind, DefKind::Fn | DefKind::AssocFn | DefKind::Closure) {
            // generic parameter names in substitution order (parents first): lets the rules instantiate a spliced generic helper
            let g = tcx.generics_of(did);
            self.s.push_str(",\"generics\":[");
            for i in 0..g.count() {
                if i > 0 {
                    self.s.push(',');
                }
                esc(&g.param_at(i, tcx).name.to_string(), self.s);
            }
            self.s.push(']');
        }
        self.s.push(',');
        self.span(self.body.span);
        let _ = write!(self.s, ",\"argc\":{}", self.body.arg_count);
        // locals
        self.s.push_str(",\"locals\":[");
        let mut names: Vec<Option<String>> = vec![None; self.body.local_decls.len()];
        for vdi in &self.body.var_debug_info {
            if let VarDebugInfoContents::Place(p) = &vdi.value {
                if p.projection.is_empty() {
                    names[p.local.as_usize()] = Some(vdi.name.to_string());
                }
            }
        }
        for (i, (_l, decl)) in self.body.local_decls.iter_enumerated().enumerate() {
            if i > 0 {
                self.s.push(',');
            }
            self.s.push_str("{\"ty\":");
            esc(&tys(decl.ty), self.s);
            if let Some(n) = &names[i] {
                self.s.push_str(",\"name\":");
                esc(n, self.s);
            }
            if decl.is_user_variable() {
                self.s.push_str(",\"user\":true");
            }
            self.s.push('}');
        }
        self.s.push(']');
        // upvar debug names (closures / coroutines): var_debug_info with projections on _1
        self.s.push_str(",\"upvars\":[");
        let mut firstu = true;
        for vdi in &self.body.var_debug_info {
            if let VarDebugInfoContents::Place(p) = &vdi.value {
                if !p.projection.is_empty() {
                    if !firstu {
                        self.s.push(',');
                    }
                    firstu = false;
                    self.s.push_str("{\"name\":");
                    esc(&vdi.name.to_string(), self.s);
                    self.s.push_str(",\"place\":");
                    self.place(p);
                    self.s.push('}');
                }
            }
        }
        self.s.push(']');
        self.s.push_str(",\"blocks\":[\n");
        for (bi, (_bb, data)) in self.body.basic_blocks.iter_enumerated().enumerate() {
            if bi > 0 {
                self.s.push_str(",\n");
            }
            self.block(data);
        }
        self.s.push_str("]}");
    }

    fn place(&mut self, p: &Place<'tcx>) {
        let tcx = self.tcx;
        let _ = write!(self.s, "{{\"l\":{}", p.local.as_usize());
        if !p.projection.is_empty() {
            self.s.push_str(",\"p\":[");
            let mut pty = rustc_middle::mir::PlaceTy::from_ty(self.body.local_decls[p.local].ty);
            for (i, elem) in p.projection.iter().enumerate() {
                if i > 0 {
                    self.s.push(',');
                }
                match elem {
                    ProjectionElem::Deref => self.s.push_str("\"*\""),
                    ProjectionElem::Field(f, _fty) => {
                        let mut done = false;
                        if let ty::Adt(adt, _) = pty.ty.kind() {
                            let vi = pty.variant_index.unwrap_or(rustc_abi::FIRST_VARIANT);
                            if vi.as_usize() < adt.variants().len() {
                                let v = adt.variant(vi);
                                if f.as_usize() < v.fields.len() {
                                    let name = v.fields[f].name.to_string();
                                    self.s.push_str("{\"f\":");
                                    esc(&name, self.s);
                                    let _ = write!(self.s, ",\"i\":{},\"adt\":", f.as_usize());
                                    esc(&dps(tcx, adt.did()), self.s);
                                    self.s.push('}');
                                    done = true;
                                }
                            }
                        }
                        if !done {
                            let k = match pty.ty.kind() {
                                ty::Closure(..) => "closure",
                                ty::Coroutine(..) => "coroutine",
                                ty::CoroutineClosure(..) => "coroutine_closure",
                                ty::Tuple(..) => "tuple",
                                _ => "other",
                            };
                            let _ = write!(self.s, "{{\"f\":\"{}\",\"i\":{},\"of\":\"{}\"}}", f.as_usize(), f.as_usize(), k);
                        }
                    }
                    ProjectionElem::Downcast(name, vi) => {
                        let n = match name {
                            Some(n) => n.to_string(),
                            None => format!("{}", vi.as_usize()),
                        };
                        self.s.push_str("{\"d\":");
                        esc(&n, self.s);
                        let _ = write!(self.s, ",\"vi\":{}}}", vi.as_usize());
                    }
                    ProjectionElem::Index(l) => {
                        let _ = write!(self.s, "{{\"idx\":{}}}", l.as_usize());
                    }
                    ProjectionElem::ConstantIndex { offset, min_length, from_end } => {
                        let _ = write!(self.s, "{{\"ci\":{},\"min\":{},\"from_end\":{}}}", offset, min_length, from_end);
                    }
                    ProjectionElem::Subslice { from, to, from_end } => {
                        let _ = write!(self.s, "{{\"sub\":[{},{}],\"from_end\":{}}}", from, to, from_end);
                    }
                    ProjectionElem::OpaqueCast(_) => self.s.push_str("\"opaque\""),
                    ProjectionElem::UnwrapUnsafeBinder(_) => self.s.push_str("\"unwrap_binder\""),
                }
                pty = pty.projection_ty(tcx, elem);
            }
            self.s.push(']');
        }
        self.s.push('}');
    }

    fn constant(&mut self, c: &ConstOperand<'tcx>) {
        let tcx = self.tcx;
        let ty = c.const_.ty();
        self.s.push_str("{\"c\":{\"ty\":");
        esc(&tys(ty), self.s);
        match ty.kind() {
            ty::FnDef(def_id, args) => {
                self.fn_ref(*def_id, args);
            }
            _ => {
                let mut val: Option<u128> = None;
                let is_promoted = matches!(c.const_, Const::Unevaluated(u, _) if u.promoted.is_some());
                let scalar_ty = ty.is_integral() || ty.is_bool() || ty.is_char();
                if scalar_ty && !is_promoted {
                    let skip_generic = matches!(c.const_, Const::Unevaluated(u, _) if u.args.iter().any(|a| a.as_type().map_or(false, |t| t.has_param())));
                    if !skip_generic {
                        if let Some(si) = c.const_.try_eval_scalar_int(tcx, self.env) {
                            val = Some(si.to_bits(si.size()));
                            if ty.is_signed() {
                                let v = si.to_int(si.size());
                                self.s.push_str(",\"v\":");
                                let _ = write!(self.s, "{}", v);
                                val = None;
                                self.s.push_str(",\"signed\":true");
                            }
                        }
                    }
                }
                if let Some(v) = val {
                    let _ = write!(self.s, ",\"v\":{}", v);
                }
                if let Const::Unevaluated(u, _) = c.const_ {
                    self.s.push_str(",\"def\":");
                    esc(&dps(tcx, u.def), self.s);
                    if let Some(pr) = u.promoted {
                        let _ = write!(self.s, ",\"promoted\":{}", pr.as_usize());
                    }
                }
                self.s.push_str(",\"s\":");
                let d = with_no_trimmed_paths!(format!("{}", c.const_));
                let d = if d.len() > 200 { d[..d.char_indices().nth(200).map_or(d.len(), |x| x.0)].to_string() } else { d };
                esc(&d, self.s);
            }
        }
        self.s.push_str("}}");
    }

    fn fn_ref(&mut self, def_id: DefId, args: ty::GenericArgsRef<'tcx>) {
        let tcx = self.tcx;
        self.s.push_str(",\"fn\":");
        esc(&dps(tcx, def_id), self.s);
        self.s.push_str(",\"local\":");
        let _ = write!(self.s, "{}", def_id.is_local());
        self.s.push_str(",\"args\":[");
        for (i, a) in args.iter().enumerate() {
            if i > 0 {
                self.s.push(',');
            }
            esc(&with_no_trimmed_paths!(format!("{}", a)), self.s);
        }
        self.s.push(']');
        if matches!(tcx.def_kind(def_id), DefKind::AssocFn) {
            if let Some(tr) = tcx.trait_of_assoc(def_id) {
                self.s.push_str(",\"trait\":");
                esc(&dps(tcx, tr), self.s);
                let _ = write!(self.s, ",\"method\":\"{}\"", tcx.item_name(def_id));
            } else {
                let _ = write!(self.s, ",\"method\":\"{}\"", tcx.item_name(def_id));
                if let Some(imp) = tcx.impl_of_assoc(def_id) {
                    self.s.push_str(",\"impl_self\":");
                    let st = tcx.type_of(imp).instantiate_identity().skip_norm_wip();
                    esc(&tys(st), self.s);
                }
            }
        }
        if matches!(tcx.def_kind(def_id), DefKind::Fn | DefKind::AssocFn) {
            // resolve
            let r = std::panic::catch_unwind(std::panic::AssertUnwindSafe(|| {
                Instance::try_resolve(tcx, self.env, def_id, args)
            }));
            if let Ok(Ok(Some(inst))) = r {
                let rd = inst.def_id();
                self.s.push_str(",\"res\":");
                esc(&dps(tcx, rd), self.s);
                let _ = write!(self.s, ",\"res_local\":{}", rd.is_local());
                let k = match inst.def {
                    ty::InstanceKind::Item(_) => "item",
                    ty::InstanceKind::Virtual(..) => "virtual",
                    ty::InstanceKind::Intrinsic(_) => "intrinsic",
                    ty::InstanceKind::ClosureOnceShim { .. } => "closure_once",
                    ty::InstanceKind::FnPtrShim(..) => "fnptr",
                    ty::InstanceKind::DropGlue(..) => "dropglue",
                    ty::InstanceKind::CloneShim(..) => "cloneshim",
                    _ => "other",
                };
                let _ = write!(self.s, ",\"res_kind\":\"{}\"", k);
                if rd != def_id || true {
                    if matches!(tcx.def_kind(rd), DefKind::AssocFn) {
                        if let Some(imp) = tcx.impl_of_assoc(rd) {
                            self.s.push_str(",\"res_impl_self\":");
                            let st = tcx.type_of(imp).instantiate_identity().skip_norm_wip();
                            esc(&tys(st), self.s);
                        }
                    }
                }
            }
        }
    }

    fn operand(&mut self, o: &Operand<'tcx>) {
        match o {
            Operand::Copy(p) => {
                self.s.push_str("{\"cp\":");
                self.place(p);
                self.s.push('}');
            }
            Operand::Move(p) => {
                self.s.push_str("{\"mv\":");
                self.place(p);
                self.s.push('}');
            }
            Operand::Constant(c) => self.constant(c),
            #[allow(unreachable_patterns)]
            _ => {
                self.s.push_str("{\"other\":");
                esc(&format!("{:?}", o), self.s);
                self.s.push('}');
            }
        }
    }

    fn rvalue(&mut self, rv: &Rvalue<'tcx>) {
        let tcx = self.tcx;
        match rv {
            Rvalue::Use(op, _) => {
                self.s.push_str("{\"k\":\"use\",\"op\":");
                self.operand(op);
                self.s.push('}');
            }
            Rvalue::CopyForDeref(p) => {
                self.s.push_str("{\"k\":\"use\",\"op\":{\"cp\":");
                self.place(p);
                self.s.push_str("}}");
            }
            Rvalue::Ref(_, bk, p) => {
                let m = matches!(bk, BorrowKind::Mut { .. });
                let _ = write!(self.s, "{{\"k\":\"ref\",\"mut\":{},\"place\":", m);
                self.place(p);
                self.s.push('}');
            }
            Rvalue::RawPtr(_, p) => {
                self.s.push_str("{\"k\":\"rawptr\",\"place\":");
                self.place(p);
                self.s.push('}');
            }
            Rvalue::Cast(ck, op, ty) => {
                self.s.push_str("{\"k\":\"cast\",\"ck\":");
                esc(&format!("{:?}", ck), self.s);
                self.s.push_str(",\"ty\":");
                esc(&tys(*ty), self.s);
                self.s.push_str(",\"op\":");
                self.operand(op);
                self.s.push('}');
            }
            Rvalue::BinaryOp(op, ab) => {
                let _ = write!(self.s, "{{\"k\":\"bin\",\"op\":\"{:?}\",\"a\":", op);
                self.operand(&ab.0);
                self.s.push_str(",\"b\":");
                self.operand(&ab.1);
                self.s.push('}');
            }
            Rvalue::UnaryOp(op, a) => {
                let _ = write!(self.s, "{{\"k\":\"un\",\"op\":\"{:?}\",\"a\":", op);
                self.operand(a);
                self.s.push('}');
            }
            Rvalue::Discriminant(p) => {
                self.s.push_str("{\"k\":\"discr\",\"place\":");
                self.place(p);
                let pty = p.ty(&self.body.local_decls, tcx).ty;
                self.s.push_str(",\"ty\":");
                esc(&tys(pty), self.s);
                if let ty::Adt(a, _) = pty.kind() {
                    self.s.push_str(",\"adt\":");
                    esc(&dps(tcx, a.did()), self.s);
                    if !a.did().is_local() {
                        let mut e = EXT_ADTS.lock().unwrap();
                        if !e.contains(&a.did()) {
                            e.push(a.did());
                        }
                    }
                }
                self.s.push('}');
            }
            Rvalue::Aggregate(kind, fields) => {
                self.s.push_str("{\"k\":\"agg\"");
                match &**kind {
                    AggregateKind::Array(_) => self.s.push_str(",\"agg\":\"array\""),
                    AggregateKind::Tuple => self.s.push_str(",\"agg\":\"tuple\""),
                    AggregateKind::Adt(did, vi, _args, _, active) => {
                        let adt = tcx.adt_def(*did);
                        self.s.push_str(",\"agg\":\"adt\",\"adt\":");
                        esc(&dps(tcx, *did), self.s);
                        let v = adt.variant(*vi);
                        self.s.push_str(",\"variant\":");
                        esc(&v.name.to_string(), self.s);
                        let _ = write!(self.s, ",\"vi\":{}", vi.as_usize());
                        self.s.push_str(",\"names\":[");
                        if let Some(a) = active {
                            esc(&v.fields[*a].name.to_string(), self.s);
                        } else {
                            for (i, f) in v.fields.iter().enumerate() {
                                if i > 0 {
                                    self.s.push(',');
                                }
                                esc(&f.name.to_string(), self.s);
                            }
                        }
                        self.s.push(']');
                    }
                    AggregateKind::Closure(did, _) => {
                        self.s.push_str(",\"agg\":\"closure\",\"def\":");
                        esc(&dps(tcx, *did), self.s);
                    }
                    AggregateKind::Coroutine(did, _) => {
                        self.s.push_str(",\"agg\":\"coroutine\",\"def\":");
                        esc(&dps(tcx, *did), self.s);
                    }
                    AggregateKind::CoroutineClosure(did, _) => {
                        self.s.push_str(",\"agg\":\"coroutine_closure\",\"def\":");
                        esc(&dps(tcx, *did), self.s);
                    }
                    AggregateKind::RawPtr(..) => self.s.push_str(",\"agg\":\"rawptr\""),
                }
                self.s.push_str(",\"fields\":[");
                for (i, f) in fields.iter().enumerate() {
                    if i > 0 {
                        self.s.push(',');
                    }
                    self.operand(f);
                }
                self.s.push_str("]}");
            }
            Rvalue::Repeat(op, _) => {
                self.s.push_str("{\"k\":\"repeat\",\"op\":");
                self.operand(op);
                self.s.push('}');
            }
            Rvalue::ThreadLocalRef(d) => {
                self.s.push_str("{\"k\":\"tls\",\"def\":");
                esc(&dps(tcx, *d), self.s);
                self.s.push('}');
            }
            other => {
                self.s.push_str("{\"k\":\"other\",\"s\":");
                esc(&format!("{:?}", other), self.s);
                self.s.push('}');
            }
        }
    }

    fn block(&mut self, data: &BasicBlockData<'tcx>) {
        let _ = write!(self.s, "{{\"cleanup\":{},\"stmts\":[", data.is_cleanup);
        let mut first = true;
        for st in &data.statements {
            match &st.kind {
                StatementKind::Assign(b) => {
                    if !first {
                        self.s.push(',');
                    }
                    first = false;
                    self.s.push_str("{\"k\":\"assign\",\"lhs\":");
                    self.place(&b.0);
                    self.s.push_str(",\"rv\":");
                    self.rvalue(&b.1);
                    self.s.push(',');
                    self.span(st.source_info.span);
                    self.s.push('}');
                }
                StatementKind::SetDiscriminant { place, variant_index } => {
                    if !first {
                        self.s.push(',');
                    }
                    first = false;
                    self.s.push_str("{\"k\":\"setdiscr\",\"place\":");
                    self.place(place);
                    let _ = write!(self.s, ",\"vi\":{}}}", variant_index.as_usize());
                }
                StatementKind::StorageDead(l) => {
                    if !first {
                        self.s.push(',');
                    }
                    first = false;
                    let _ = write!(self.s, "{{\"k\":\"dead\",\"l\":{}}}", l.as_usize());
                }
                _ => {}
            }
        }
        self.s.push_str("],\"term\":");
        let term = data.terminator();
        self.terminator(term);
        self.s.push('}');
    }

    fn unwind(&mut self, u: &UnwindAction) {
        match u {
            UnwindAction::Cleanup(bb) => {
                let _ = write!(self.s, ",\"unwind\":{}", bb.as_usize());
            }
            _ => {}
        }
    }

    fn terminator(&mut self, term: &Terminator<'tcx>) {
        match &term.kind {
            TerminatorKind::Goto { target } => {
                let _ = write!(self.s, "{{\"k\":\"goto\",\"target\":{}}}", target.as_usize());
            }
            TerminatorKind::FalseEdge { real_target, .. } => {
                let _ = write!(self.s, "{{\"k\":\"goto\",\"target\":{},\"false_edge\":true}}", real_target.as_usize());
            }
            TerminatorKind::FalseUnwind { real_target, .. } => {
                let _ = write!(self.s, "{{\"k\":\"goto\",\"target\":{},\"false_unwind\":true}}", real_target.as_usize());
            }
            TerminatorKind::SwitchInt { discr, targets } => {
                self.s.push_str("{\"k\":\"switch\",\"discr\":");
                self.operand(discr);
                self.s.push_str(",\"targets\":[");
                for (i, (v, bb)) in targets.iter().enumerate() {
                    if i > 0 {
                        self.s.push(',');
                    }
                    let _ = write!(self.s, "[{},{}]", v, bb.as_usize());
                }
                let _ = write!(self.s, "],\"otherwise\":{},", targets.otherwise().as_usize());
                self.span(term.source_info.span);
                self.s.push('}');
            }
            TerminatorKind::UnwindResume => self.s.push_str("{\"k\":\"resume\"}"),
            TerminatorKind::UnwindTerminate(_) => self.s.push_str("{\"k\":\"abort\"}"),
            TerminatorKind::Return => self.s.push_str("{\"k\":\"return\"}"),
            TerminatorKind::Unreachable => self.s.push_str("{\"k\":\"unreachable\"}"),
            TerminatorKind::CoroutineDrop => self.s.push_str("{\"k\":\"coroutine_drop\"}"),
            TerminatorKind::Drop { place, target, unwind, .. } => {
                self.s.push_str("{\"k\":\"drop\",\"place\":");
                self.place(place);
                let _ = write!(self.s, ",\"target\":{}", target.as_usize());
                self.unwind(unwind);
                self.s.push('}');
            }
            TerminatorKind::Call { func, args, destination, target, unwind, .. } => {
                self.s.push_str("{\"k\":\"call\",\"func\":");
                self.operand(func);
                self.s.push_str(",\"args\":[");
                for (i, a) in args.iter().enumerate() {
                    if i > 0 {
                        self.s.push(',');
                    }
                    self.operand(&a.node);
                }
                self.s.push_str("],\"dest\":");
                self.place(destination);
                match target {
                    Some(t) => {
                        let _ = write!(self.s, ",\"target\":{}", t.as_usize());
                    }
                    None => self.s.push_str(",\"target\":null"),
                }
                self.unwind(unwind);
                self.s.push(',');
                self.span(term.source_info.span);
                self.s.push('}');
            }
            TerminatorKind::TailCall { func, args, .. } => {
                self.s.push_str("{\"k\":\"tailcall\",\"func\":");
                self.operand(func);
                self.s.push_str(",\"args\":[");
                for (i, a) in args.iter().enumerate() {
                    if i > 0 {
                        self.s.push(',');
                    }
                    self.operand(&a.node);
                }
                self.s.push_str("]}");
            }
            TerminatorKind::Assert { cond, expected, msg, target, unwind } => {
                self.s.push_str("{\"k\":\"assert\",\"cond\":");
                self.operand(cond);
                let _ = write!(self.s, ",\"expected\":{},\"target\":{}", expected, target.as_usize());
                self.unwind(unwind);
                match &**msg {
                    AssertKind::Overflow(op, a, b) => {
                        let _ = write!(self.s, ",\"msg\":\"Overflow\",\"op\":\"{:?}\",\"a\":", op);
                        self.operand(a);
                        self.s.push_str(",\"b\":");
                        self.operand(b);
                    }
                    AssertKind::BoundsCheck { len, index } => {
                        self.s.push_str(",\"msg\":\"BoundsCheck\",\"len\":");
                        self.operand(len);
                        self.s.push_str(",\"index\":");
                        self.operand(index);
                    }
                    AssertKind::OverflowNeg(a) => {
                        self.s.push_str(",\"msg\":\"OverflowNeg\",\"a\":");
                        self.operand(a);
                    }
                    AssertKind::DivisionByZero(a) => {
                        self.s.push_str(",\"msg\":\"DivisionByZero\",\"a\":");
                        self.operand(a);
                    }
                    AssertKind::RemainderByZero(a) => {
                        self.s.push_str(",\"msg\":\"RemainderByZero\",\"a\":");
                        self.operand(a);
                    }
                    other => {
                        self.s.push_str(",\"msg\":");
                        let n = format!("{:?}", other);
                        let n = n.split(|c: char| !c.is_alphanumeric()).next().unwrap_or("").to_string();
                        esc(&n, self.s);
                    }
                }
                self.s.push(',');
                self.span(term.source_info.span);
                self.s.push('}');
            }
            TerminatorKind::Yield { value, resume, resume_arg, drop } => {
                self.s.push_str("{\"k\":\"yield\",\"value\":");
                self.operand(value);
                let _ = write!(self.s, ",\"resume\":{},\"resume_arg\":", resume.as_usize());
                self.place(resume_arg);
                if let Some(d) = drop {
                    let _ = write!(self.s, ",\"drop\":{}", d.as_usize());
                }
                self.s.push(',');
                self.span(term.source_info.span);
                self.s.push('}');
            }
            TerminatorKind::InlineAsm { .. } => self.s.push_str("{\"k\":\"asm\"}"),
        }
    }
}

fn type_facts<'tcx>(tcx: TyCtxt<'tcx>, s: &mut String) {
    // ADTs, consts, statics, impls
    s.push_str("\"adts\":[\n");
    let mut first = true;
    let items = tcx.hir_crate_items(());
    for id in items.definitions() {
        let did = id.to_def_id();
        let kind = tcx.def_kind(did);
        if matches!(kind, DefKind::Struct | DefKind::Enum | DefKind::Union) {
            if !first {
                s.push_str(",\n");
            }
            first = false;
            let adt = tcx.adt_def(did);
            s.push_str("{\"path\":");
            esc(&dps(tcx, did), s);
            let _ = write!(s, ",\"kind\":\"{:?}\",\"variants\":[", kind);
            for (i, (vi, v)) in adt.variants().iter_enumerated().enumerate() {
                if i > 0 {
                    s.push(',');
                }
                s.push_str("{\"name\":");
                esc(&v.name.to_string(), s);
                if adt.is_enum() {
                    let d = adt.discriminant_for_variant(tcx, vi);
                    let _ = write!(s, ",\"discr\":{}", d.val);
                }
                s.push_str(",\"fields\":[");
                for (j, f) in v.fields.iter().enumerate() {
                    if j > 0 {
                        s.push(',');
                    }
                    s.push_str("{\"name\":");
                    esc(&f.name.to_string(), s);
                    s.push_str(",\"ty\":");
                    let fty = tcx.type_of(f.did).instantiate_identity().skip_norm_wip();
                    esc(&tys(fty), s);
                    s.push('}');
                }
                s.push_str("]}");
            }
            s.push_str("]}");
        }
    }
    // external enums whose discriminant is inspected somewhere in the crate
    let ext: Vec<DefId> = EXT_ADTS.lock().unwrap().clone();
    for did in ext {
        let adt = tcx.adt_def(did);
        if !adt.is_enum() {
            continue;
        }
        if !first {
            s.push_str(",\n");
        }
        first = false;
        s.push_str("{\"path\":");
        esc(&dps(tcx, did), s);
        s.push_str(",\"kind\":\"Enum\",\"external\":true,\"variants\":[");
        for (i, (vi, v)) in adt.variants().iter_enumerated().enumerate() {
            if i > 0 {
                s.push(',');
            }
            s.push_str("{\"name\":");
            esc(&v.name.to_string(), s);
            let d = adt.discriminant_for_variant(tcx, vi);
            let _ = write!(s, ",\"discr\":{},\"fields\":[]}}", d.val);
        }
        s.push_str("]}");
    }
    s.push_str("\n],\n\"consts\":[\n");
    let mut first = true;
    for id in items.definitions() {
        let did = id.to_def_id();
        let kind = tcx.def_kind(did);
        if matches!(kind, DefKind::Const { .. } | DefKind::AssocConst { .. }) {
            let ty = tcx.type_of(did).instantiate_identity().skip_norm_wip();
            if !(ty.is_integral() || ty.is_bool()) {
                continue;
            }
            if tcx.generics_of(did).requires_monomorphization(tcx) {
                continue;
            }
            let v = tcx.const_eval_poly(did);
            if let Ok(cv) = v {
                if let Some(si) = cv.try_to_scalar_int() {
                    if !first {
                        s.push_str(",\n");
                    }
                    first = false;
                    s.push_str("{\"path\":");
                    esc(&dps(tcx, did), s);
                    s.push_str(",\"ty\":");
                    esc(&tys(ty), s);
                    if ty.is_signed() {
                        let _ = write!(s, ",\"v\":{}}}", si.to_int(si.size()));
                    } else {
                        let _ = write!(s, ",\"v\":{}}}", si.to_bits(si.size()));
                    }
                }
            }
        }
    }
    s.push_str("\n],\n\"statics\":[\n");
    let mut first = true;
    for id in items.definitions() {
        let did = id.to_def_id();
        if matches!(tcx.def_kind(did), DefKind::Static { .. }) {
            if !first {
                s.push_str(",\n");
            }
            first = false;
            s.push_str("{\"path\":");
            esc(&dps(tcx, did), s);
            s.push_str(",\"ty\":");
            let ty = tcx.type_of(did).instantiate_identity().skip_norm_wip();
            esc(&tys(ty), s);
            let _ = write!(s, ",\"thread_local\":{}}}", tcx.is_thread_local_static(did));
        }
    }
    s.push_str("\n],\n\"impls\":[\n");
    let mut first = true;
    for id in items.definitions() {
        let did = id.to_def_id();
        if let DefKind::Impl { .. } = tcx.def_kind(did) {
            if !first {
                s.push_str(",\n");
            }
            first = false;
            s.push_str("{\"self\":");
            let st = tcx.type_of(did).instantiate_identity().skip_norm_wip();
            esc(&tys(st), s);
            if let ty::Adt(a, _) = st.kind() {
                s.push_str(",\"self_adt\":");
                esc(&dps(tcx, a.did()), s);
            }
            if let Some(tr) = tcx.impl_opt_trait_ref(did) {
                let tr = tr.instantiate_identity().skip_norm_wip();
                s.push_str(",\"trait\":");
                esc(&dps(tcx, tr.def_id), s);
                s.push_str(",\"trait_ref\":");
                esc(&with_no_trimmed_paths!(format!("{}", tr)), s);
            }
            s.push_str(",\"items\":[");
            for (i, it) in tcx.associated_items(did).in_definition_order().enumerate() {
                if i > 0 {
                    s.push(',');
                }
                s.push_str("{\"name\":");
                esc(&it.opt_name().map_or(String::from("?"), |n| n.to_string()), s);
                s.push_str(",\"path\":");
                esc(&dps(tcx, it.def_id), s);
                s.push('}');
            }
            s.push_str("]}");
        }
    }
    s.push_str("\n],\n\"fns\":[\n");
    // signatures of local fns (name, visibility, is async, arg types, ret type)
    let mut first = true;
    for id in items.definitions() {
        let did = id.to_def_id();
        if matches!(tcx.def_kind(did), DefKind::Fn | DefKind::AssocFn) {
            if !first {
                s.push_str(",\n");
            }
            first = false;
            s.push_str("{\"path\":");
            esc(&dps(tcx, did), s);
            let sig = tcx.fn_sig(did).instantiate_identity().skip_norm_wip();
            s.push_str(",\"sig\":");
            esc(&with_no_trimmed_paths!(format!("{}", sig)), s);
            let _ = write!(s, ",\"pub\":{},\"has_body\":{}}}", tcx.visibility(did).is_public(), tcx.is_mir_available(did) || id.to_def_id().is_local() && tcx.hir_maybe_body_owned_by(id).is_some());
        }
    }
    s.push_str("\n]\n");
}

fn main() {
    let mut args: Vec<String> = std::env::args().collect();
    // RUSTC_WORKSPACE_WRAPPER: argv = [wrapper, rustc, args...]
    if args.len() > 1 && (args[1].ends_with("rustc") || args[1].contains("/rustc")) {
        args.remove(1);
    }
    let is_target = args.iter().any(|a| a == "ntex_mqtt") && std::env::var("MIRFACTS_OUT").is_ok();
    if is_target {
        let mut cb = Cb;
        rustc_driver::run_compiler(&args, &mut cb);
    } else {
        struct Nop;
        impl Callbacks for Nop {}
        rustc_driver::run_compiler(&args, &mut Nop);
    }
}
